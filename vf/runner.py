"""Shared runner: tiers, sharding, worker processes, confirm-in-isolation,
known findings, replay files and evidence writing.

An *engine* is a module ``vf.<name>`` exposing

    PROPERTIES : dict  property id -> short description of the clause set
    shards(pid, tier, seed) -> list[dict]       JSON specs, one per worker shard
    run_shard(spec) -> dict                     executed inside a worker process
    replay(pid, case) -> dict | None            re-run ONE case; a violation dict or None
    RULE[pid], REQUIRED[pid]                    non-triviality rule text, required event kinds

``run_shard`` returns::

    {"evaluations": int, "nontrivial": [int hashes], "events": {kind: n},
     "oracle_checks": int, "samples": [...],
     "violations": [{"key": str, "what": str, "case": {...}, "detail": {...}}],
     "violation_counts": {key: n}, "extra": {...}}

The runner never decides a property itself; it merges what the monitors in the
workers observed, re-executes every candidate violation from its case in a
fresh process, and maps mechanism keys to known findings.
"""

from __future__ import annotations

import hashlib
import importlib
import json
import os
import shutil
import subprocess
import sys
import tempfile
import time
from concurrent.futures import ThreadPoolExecutor

VERIF = os.path.dirname(os.path.dirname(os.path.abspath(__file__)))
PY = os.environ.get("VERIF_PYTHON", "/venv/bin/python")
REPO = os.environ.get("VERIF_REPO", "/repo")
GUARD = "ROBOTPY_WPILIB_UTILITIES_VERIF"

# property id -> engine module
ENGINES = {
    "C01": "sm_engine", "C02": "sm_engine", "C03": "sm_engine", "C04": "sm_engine",
    "C13": "sm_engine",
    "C05": "robot_engine", "C06": "robot_engine", "C07": "robot_engine",
    "C10": "robot_engine", "C11": "robot_engine",
    "C08": "p_inject", "C09": "p_tunable", "C12": "p_smdef", "C14": "p_selector",
    "C15": "p_stateful", "C16": "p_delay", "C17": "p_sharp", "C18": "p_units",
    "C19": "p_controls", "C20": "p_crc7",
}

WATCHDOG_S = {"quick": 240, "thorough": 2400}


def stable_hash(obj) -> int:
    """64-bit hash of a JSON-serialisable object, stable across processes."""
    s = json.dumps(obj, sort_keys=True, default=repr, separators=(",", ":"))
    return int.from_bytes(hashlib.blake2b(s.encode(), digest_size=8).digest(), "big")


def shard_seed(seed: int, pid: str, i: int) -> int:
    return stable_hash([seed, pid, i]) & 0x7FFFFFFF


def worker_env() -> dict:
    env = dict(os.environ)
    env["PYTHONPATH"] = REPO + os.pathsep + VERIF
    env["PYTHONDONTWRITEBYTECODE"] = "1"
    env["PYTHONHASHSEED"] = "0"
    env[GUARD] = "1"
    env["VERIF_REPO"] = REPO
    return env


def _run_worker(engine: str, mode: str, payload: dict, timeout: float) -> dict:
    """Run one worker process; returns its result dict or an 'inconclusive' marker."""
    tmp = tempfile.mkdtemp(prefix="vf-w-")
    try:
        inp = os.path.join(tmp, "in.json")
        out = os.path.join(tmp, "out.json")
        with open(inp, "w") as f:
            json.dump(payload, f)
        cwd = os.path.join(tmp, "cwd")
        os.mkdir(cwd)
        cmd = [PY, "-X", "faulthandler", "-m", "vf.worker", engine, mode, inp, out]
        try:
            p = subprocess.run(cmd, cwd=cwd, env=worker_env(), timeout=timeout,
                               stdout=subprocess.PIPE, stderr=subprocess.PIPE)
        except subprocess.TimeoutExpired as e:
            return {"inconclusive": f"worker watchdog ({timeout}s) fired",
                    "stderr": (e.stderr or b"")[-2000:].decode("utf8", "replace")}
        if p.returncode != 0 or not os.path.exists(out):
            return {"inconclusive": f"worker died rc={p.returncode}",
                    "stderr": p.stderr[-4000:].decode("utf8", "replace")}
        with open(out) as f:
            return json.load(f)
    finally:
        shutil.rmtree(tmp, ignore_errors=True)


def load_known() -> list[dict]:
    path = os.path.join(VERIF, "known_findings.json")
    if not os.path.exists(path):
        return []
    with open(path) as f:
        return json.load(f).get("findings", [])


def run_property(pid: str, tier: str, seed: int, jobs: int | None = None) -> int:
    t0 = time.time()
    engine_name = ENGINES[pid]
    engine = importlib.import_module("vf." + engine_name)
    specs = engine.shards(pid, tier, seed)
    for i, s in enumerate(specs):
        s.setdefault("pid", pid)
        s.setdefault("tier", tier)
        s.setdefault("shard", i)
        s.setdefault("seed", shard_seed(seed, pid, i))
    if jobs is None:
        jobs = int(os.environ.get("VERIF_JOBS", "0")) or (os.cpu_count() or 4)
    jobs = max(1, min(jobs, len(specs)))
    wd = WATCHDOG_S[tier]
    native_crashes = []

    def run_shard_spec(s):
        # A worker killed by a signal (a native crash inside the pre-built HAL simulator / NetworkTables threads) says nothing
        # about the library: the shard - deterministic on the Python side - is run again, at most twice; recorded in the evidence.
        r = _run_worker(engine_name, "shard", s, wd)
        for _ in range(2):
            if not ("inconclusive" in r and "worker died rc=-" in r["inconclusive"]):
                break
            native_crashes.append(f"shard {s['shard']}: {r['inconclusive']}")
            r = _run_worker(engine_name, "shard", s, wd)
        return r
    with ThreadPoolExecutor(max_workers=jobs) as ex:
        results = list(ex.map(run_shard_spec, specs))

    merged = {"evaluations": 0, "oracle_checks": 0, "events": {}, "samples": [],
              "violation_counts": {}, "extra": {}}
    nontrivial: set[int] = set()
    violations: list[dict] = []
    inconclusive: list[str] = []
    for spec, r in zip(specs, results):
        if "inconclusive" in r:
            inconclusive.append(f"shard {spec['shard']}: {r['inconclusive']}: {r.get('stderr','')[-600:]}")
            continue
        merged["evaluations"] += r.get("evaluations", 0)
        merged["oracle_checks"] += r.get("oracle_checks", 0)
        for k, v in r.get("events", {}).items():
            merged["events"][k] = merged["events"].get(k, 0) + v
        nontrivial.update(r.get("nontrivial", []))
        if len(merged["samples"]) < 5:
            merged["samples"].extend(r.get("samples", [])[: 5 - len(merged["samples"])])
        for k, v in r.get("violation_counts", {}).items():
            merged["violation_counts"][k] = merged["violation_counts"].get(k, 0) + v
        for v in r.get("violations", []):
            v["shard_spec"] = spec
            violations.append(v)
        for k, v in r.get("extra", {}).items():
            if isinstance(v, (int, float)) and not isinstance(v, bool):
                merged["extra"][k] = merged["extra"].get(k, 0) + v
            elif isinstance(v, list):
                cur = merged["extra"].setdefault(k, [])
                for x in v:
                    if x not in cur and len(cur) < 200:
                        cur.append(x)
            elif isinstance(v, dict):
                cur = merged["extra"].setdefault(k, {})
                for kk, vv in v.items():
                    if isinstance(vv, (int, float)) and not isinstance(vv, bool):
                        cur[kk] = cur.get(kk, 0) + vv
                    else:
                        cur[kk] = vv
            else:
                merged["extra"][k] = v

    # ---- confirm candidate violations in a fresh process, per mechanism key
    known = [k for k in load_known() if k.get("property") == pid and k.get("status") == "known"]
    known_keys = {k["key"]: k for k in known}
    by_key: dict[str, list[dict]] = {}
    for v in violations:
        by_key.setdefault(v["key"], []).append(v)
    confirmed: list[dict] = []
    known_seen: dict[str, int] = {}
    unreproduced = 0
    for key, vs in sorted(by_key.items()):
        ok = None
        for v in vs[:3]:
            r = _run_worker(engine_name, "replay", {"pid": pid, "case": v["case"]}, 300 if tier == "quick" else 2400)
            if "inconclusive" in r:
                inconclusive.append(f"replay of {key}: {r['inconclusive']}: {r.get('stderr','')[-600:]}")
                continue
            rv = r.get("violation")
            if rv is not None:
                v = dict(v)
                v["replayed"] = rv
                v["key"] = rv.get("key", key)
                ok = v
                break
            unreproduced += 1
        if ok is None:
            if not any(key in s for s in inconclusive):
                os.makedirs(os.path.join(VERIF, "replays"), exist_ok=True)
                upath = os.path.join(VERIF, "replays", f"unreproduced-{pid}-{key.replace('/', '_')}.json")
                with open(upath, "w") as f:
                    json.dump({"property": pid, "key": key, "what": vs[0].get("what"), "case": vs[0]["case"],
                               "detail": vs[0].get("detail"), "shard_spec": vs[0].get("shard_spec")}, f, indent=1, default=repr)
                inconclusive.append(f"candidate violation {key} did not reproduce in a fresh process (saved {upath})")
            continue
        if ok["key"] in known_keys:
            known_seen[ok["key"]] = merged["violation_counts"].get(key, len(vs))
        else:
            confirmed.append(ok)

    # ---- required event kinds: the deciding monitor must have been reached
    required = getattr(engine, "REQUIRED", {}).get(pid, {})
    missing = []
    if not inconclusive:
        for kind, need in required.items():
            n = need
            if merged["events"].get(kind, 0) < n:
                missing.append(f"{kind}<{n} (saw {merged['events'].get(kind, 0)})")
    if missing:
        inconclusive.append("required event kinds not observed: " + ", ".join(missing))

    wall = time.time() - t0
    replay_paths = []
    rdir = os.environ.get("VERIF_REPLAY_DIR") or os.path.join(VERIF, "replays")
    if confirmed:
        os.makedirs(rdir, exist_ok=True)
        for i, v in enumerate(confirmed):
            h = stable_hash(v["case"]) & 0xFFFFFFFF
            path = os.path.join(rdir, f"{pid}-{v['key'].replace('/', '_')}-{h:08x}.json")
            with open(path, "w") as f:
                json.dump({"property": pid, "key": v["key"], "what": v.get("what"),
                           "case": v["case"], "detail": v.get("detail"),
                           "replayed": v.get("replayed"), "seed": seed, "tier": tier},
                          f, indent=1, default=repr)
            replay_paths.append(path)

    rule = getattr(engine, "RULE", {}).get(pid, "")
    coverage = {
        "evaluations": merged["evaluations"],
        "distinct_nontrivial": len(nontrivial),
        "rule": rule,
        "samples": merged["samples"][:5],
        "events_observed": dict(sorted(merged["events"].items())),
        "oracle_checks": merged["oracle_checks"],
        "required_event_kinds": required,
        "shards": len(specs),
        "known_findings_seen": known_seen,
        "candidate_violation_counts": merged["violation_counts"],
        "unreproduced_candidates": unreproduced,
        "shards_rerun_after_native_crash": native_crashes,
        "inconclusive": inconclusive,
        "verdict": ("violated" if confirmed else "inconclusive" if inconclusive else "held on what was observed"),
    }
    for k, v in merged["extra"].items():
        coverage.setdefault(k, v)
    ev = {
        "property_id": pid, "tier": tier, "seed": seed, "level": "exploration",
        "coverage": coverage,
        "assumptions": getattr(engine, "ASSUMPTIONS", {}).get(pid, []) + [
            "WPILib HAL simulator (pre-built wheels) models the FPGA clock, notifiers, driver station and NetworkTables faithfully",
            f"code under test is the working tree at {REPO}, imported by {PY}",
        ],
        "wall_s": round(wall, 3),
        "violations": len(confirmed),
    }
    # (mutation self-tests point VERIF_EVIDENCE_DIR elsewhere: evidence for a mutant is not evidence for /repo)
    evdir = os.environ.get("VERIF_EVIDENCE_DIR") or os.path.join(VERIF, "evidence")
    os.makedirs(evdir, exist_ok=True)
    with open(os.path.join(evdir, f"{pid}.json"), "w") as f:
        json.dump(ev, f, indent=1, default=repr)

    for key, n in sorted(known_seen.items()):
        print(f"KNOWN-FINDING: property={pid} {known_keys[key]['what']} [key={key}, {n} witnesses this run]")
    print(f"{pid} tier={tier} seed={seed}: {merged['evaluations']} cases, "
          f"{len(nontrivial)} distinct non-trivial, {merged['oracle_checks']} oracle checks, "
          f"{len(merged['events'])} event kinds, {wall:.1f}s")
    if confirmed:
        for v, path in zip(confirmed, replay_paths):
            print(f"  violated: key={v['key']} {v.get('what','')}")
            print(f"VIOLATION property={pid} replay={path}")
        return 1
    if inconclusive:
        for s in inconclusive[:10]:
            print(f"INCONCLUSIVE property={pid} reason=" + " | ".join(x for x in str(s).splitlines() if x.strip())[-900:])
        return 2
    return 0


def replay_file(pid: str, path: str) -> int:
    with open(path) as f:
        data = json.load(f)
    case = data.get("case", data)
    engine_name = ENGINES[pid]
    r = _run_worker(engine_name, "replay", {"pid": pid, "case": case, "verbose": True}, 600)
    if "inconclusive" in r:
        print(f"INCONCLUSIVE property={pid} reason={r['inconclusive']} {r.get('stderr','')}")
        return 2
    v = r.get("violation")
    if r.get("trace"):
        for line in r["trace"]:
            print(line)
    if v is None:
        print(f"{pid}: replay of {path} shows no violation on this tree")
        return 0
    print(json.dumps(v, indent=1, default=repr))
    known_keys = {k["key"] for k in load_known() if k.get("property") == pid and k.get("status") == "known"}
    if v.get("key") in known_keys:
        print(f"KNOWN-FINDING: property={pid} key={v.get('key')}")
        return 0
    print(f"VIOLATION property={pid} replay={path}")
    return 1


def main(argv=None) -> int:
    import argparse
    ap = argparse.ArgumentParser()
    ap.add_argument("pid")
    ap.add_argument("--tier", default=os.environ.get("VERIF_TIER", "quick"), choices=["quick", "thorough"])
    ap.add_argument("--seed", type=int, default=int(os.environ.get("VERIF_SEED", "0")))
    ap.add_argument("--replay")
    ap.add_argument("--jobs", type=int)
    a = ap.parse_args(argv)
    if a.pid not in ENGINES:
        print(f"unknown property {a.pid}")
        return 2
    if a.replay:
        return replay_file(a.pid, a.replay)
    return run_property(a.pid, a.tier, a.seed, a.jobs)


if __name__ == "__main__":
    sys.exit(main())
