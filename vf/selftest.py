"""Self-tests of the harness's own oracles on synthetic inputs (run by setup.sh)."""
import sys


def test_crc7_reference():
    from vf.p_crc7 import ref_crc7, ref_step
    # navX register protocol: checksum of [reg, count] read requests; vectors computed by the
    # published C implementation (poly 0x91, LSB first)
    assert ref_crc7(b"") == 0
    assert ref_crc7(b"\x00" * 9) == 0
    # single byte 0x01: shift register by hand
    r = 1
    for _ in range(8):
        r = (r ^ 0x91) >> 1 if r & 1 else r >> 1
    assert ref_crc7(b"\x01") == r
    assert all(0 <= ref_step(s, b) < 128 for s in range(128) for b in range(256))
    # linear
    assert ref_crc7(b"\x12\x34") ^ ref_crc7(b"\xab\xcd") == ref_crc7(bytes([0x12 ^ 0xab, 0x34 ^ 0xcd]))


def main():
    n = 0
    for name, fn in sorted(globals().items()):
        if name.startswith("test_") and callable(fn):
            fn()
            n += 1
    mods = ["vf.runner", "vf.worker", "vf.common"]
    import importlib
    from vf.runner import ENGINES
    import os
    for e in sorted(set(ENGINES.values())):
        if os.path.exists(os.path.join(os.path.dirname(__file__), e + ".py")):
            mods.append("vf." + e)
    for m in mods:
        importlib.import_module(m)
    print(f"selftest: {n} oracle self-tests passed, {len(mods)} modules import")


if __name__ == "__main__":
    sys.exit(main())
