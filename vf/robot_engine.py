"""C05 C06 C07 C10 C11 - the real MagicRobot control loop under generated robots, mode histories and fault plans."""
from __future__ import annotations

import random

from .common import Acc, stable_hash

PROPERTIES = {"C05": "iteration order / timing / mode", "C06": "component lifecycle", "C07": "exceptions with/without FMS",
              "C10": "will_reset_to", "C11": "feedbacks"}
_GEN = ("generated MagicRobot subclasses (0-5 components split over 1-3 robot-class levels, optional setup/on_enable/"
        "on_disable, will_reset_to markers own and inherited, feedback getters with adversarial names / explicit keys / "
        "all return hints, 0-3 autonomous modes, use_teleop_in_autonomous on/off, four loop periods) driven through the "
        "real startCompetition() thread over random driver-station histories (3-9 mode segments, dwell 1-25, disabled "
        "with any flag combination, endCompetition in the last mode); also: StateMachine components, two components of "
        "one class or of a derived class, falsy and equal-comparing components, hooks given as staticmethod / instance "
        "attribute, robots that leave mode hooks to MagicRobot's defaults, falsy mode objects, the 'Auto Selector' string, "
        "constructors assigning marked attributes, the FMS bit changing while the robot runs, five kinds of exception; ")
RULE = {
    "C05": _GEN + "callbacks may advance the clock (loop-body durations up to 3.5 periods). Non-trivial = >=2 components, >=3 "
           "distinct modes visited and >=1 direct enabled->enabled switch; distinct = hash of (robot definition, history, plan)",
    "C06": _GEN + "non-trivial and distinct as C05",
    "C07": _GEN + "with fault plans: 1-3 faulty callback sites x firing pattern (first / k-th / every call), FMS attached or "
           "not. Non-trivial = >=1 fault actually fired; distinct as C05",
    "C10": _GEN + "with scripted assignments to marked and unmarked attributes from every kind of callback, half of the cases "
           "with raising callbacks under FMS. Non-trivial = >=2 assignments to marked attributes inside enabled iterations "
           "and >=2 components; distinct as C05",
    "C11": _GEN + "feedback-heavy robots, half of the cases with raising getters under FMS. Non-trivial = >=3 feedback getters "
           "and >=3 distinct modes visited; distinct as C05",
}
REQUIRED = {
    "C05": {"iteration:teleop": 500, "iteration:auto": 500, "iteration:disabled": 500, "iteration:test": 300,
            "timing-checked": 2000, "overrun-catchup": 30, "mode-string-checked": 2000, "teleop-in-auto-iteration": 100,
            "inherited-robot-class": 50, "fault-in-iteration-body-swallowed": 20, "statemachine-component": 100,
            "robot-without-some-mode-hooks": 100, "falsy-mode-object-active": 10, "mode-chosen-by-auto-selector-string": 50,
            "falsy-component": 100, "loop-period-set-on-the-instance": 100, "use_teleop_in_autonomous-given-as-1": 50,
            "component-constructor-takes-another-component": 100, "auto-iteration-mode-rule-checked": 2000, "driver-station-changed-mid-iteration": 300},
    "C06": {"transition:teleop->auto": 20, "transition:auto->teleop": 20, "transition:teleop->disabled": 30,
            "transition:disabled->teleop": 30, "transition:auto->test": 10, "setup-checked": 300, "lifecycle-fault-swallowed": 30, "statemachine-component": 100, "end:teleop": 10, "end:auto": 10,
            "end:disabled": 10, "end:test": 10, "robot-without-some-mode-hooks": 100,
            "hooks-that-are-not-plain-methods": 100, "execute-inside-bracket-checked": 5000, "component-derived-from-MagicComponent-through-a-base-class": 100, "mode-named-like-a-component": 20, "falsy-component": 100,
            "driver-station-changed-mid-iteration": 300},
    "C07": {"swallowed:execute": 20, "swallowed:on_enable": 10, "swallowed:on_disable": 10, "swallowed:robotPeriodic": 10,
            "swallowed:teleopPeriodic-in-auto": 5, "swallowed:feedback": 10, "swallowed:mode.on_iteration": 5,
            "swallowed:init": 10, "swallowed:periodic": 10, "propagated": 100, "iterations-after-fault": 500,
            "trace-equals-fault-free-twin": 200, "prefix-equals-fault-free-twin": 100, "fault-after-fms-change": 10,
            "fault-without-fms-but-with-match-info": 50, "fault-inside-consumeExceptions-block": 20, "driver-station-changed-mid-iteration": 300},
    "C10": {"assign-enabled": 500, "reset-checked-at-arrival": 2000, "assign-disabled-dontcare": 50, "sentinel-assign": 50,
            "fault-in-reset-iteration": 20, "snapshot-checked": 20000,
            "marker-redeclared-in-subclass": 30, "marker-shadowed-by-plain-attribute": 30, "two-components-one-class": 50,
            "private-named-marker": 30, "identity-only-default": 30, "component-class-derived-from-another-component-class": 30,
            "fault-after-fms-attached-mid-run": 10, "two-components-comparing-equal": 20, "constructor-assigns-reset-attribute": 100, "one-marker-object-under-two-names": 50, "injected-variable-rebound-by-the-component": 30, "driver-station-changed-mid-iteration": 300,
            "falsy-component": 100},
    "C11": {"feedback-value-checked": 5000, "feedback-type-checked": 5000, "raised-getter-unchanged": 20,
            "hint:int": 50, "hint:float": 50, "hint:bool": 50, "hint:str": 50, "hint:int[]": 20, "hint:rot": 20, "hint:none": 50,
            "explicit-key": 50, "get_-prefix-stripped": 50, "getter-function-named-differently-from-its-attribute": 100,
            "underscore-named-feedback-method": 100, "mode:disabled": 200, "mode:test": 100,
            "same-list-object-mutated": 100, "string-return-hint": 100, "fault-after-fms-attached-mid-run": 10},
}
ASSUMPTIONS = {p: ["the robot thread is parked at the gate in NotifierDelay.wait() while the harness changes driver-station words and reads NetworkTables (simenv.py)",
                   "on_disable order among components, setup order, feedback order inside an iteration are not specified and are compared as sets"]
               for p in REQUIRED}

PERIODS = [20000, 20000, 5000, 50000, 15625, 15700, 16300]     # 0.0157 s * 1e6 is 15699.999999999998
MODES = ["disabled", "auto", "teleop", "test"]
ENABLED = ("auto", "teleop")


def shards(pid, tier, seed):
    if tier == "quick":
        return [{"n": 150} for _ in range(16)]
    return [{"n": 1500} for _ in range(64)]


# ----------------------------------------------------------------------------- generator
def gen_case(rng, pid, uid):
    n = rng.choice([0, 1, 2, 2, 3, 3, 4, 5]) if pid not in ("C10",) else rng.choice([2, 2, 3, 4])
    if rng.random() < 0.01:
        n = rng.choice([11, 13])          # a big robot: more than ten components
    cnames = [f"c{i}{uid}" for i in range(n)]
    rng.shuffle(cnames)
    levels = rng.choice([1, 1, 2, 3])
    cuts = sorted(rng.randrange(0, n + 1) for _ in range(levels - 1))
    parts, prev = [], 0
    for c in cuts + [n]:
        parts.append(cnames[prev:c])
        prev = c
    robot_classes = [{"name": f"RB{i}_{uid}", "components": p} for i, p in enumerate(parts)]
    comps = {}
    defaults = [0, False, None, "idle", 1.5, -1, True, ""]
    fbnames = ["get_x", "x", "get_get_x", "getter", "get_target", "is_ready", "get_", "getx", "get_get_", "widget_count", "target_get_x",
               "budget_left", "_get_v", "_w"]
    p_fb = 0.8 if pid == "C11" else 0.4
    for cn in cnames:
        c = {"has_setup": rng.random() < 0.7, "has_on_enable": rng.random() < 0.7, "has_on_disable": rng.random() < 0.7,
             "resets": [], "sentinels": [], "feedbacks": [], "inject": []}
        for j in range(rng.choice([0, 1, 1, 2, 3]) if pid == "C10" else rng.choice([0, 0, 1, 2])):
            r = {"attr": f"r{j}" if rng.random() < 0.8 else f"_r{j}", "default": rng.choice(defaults), "inherited": rng.random() < 0.3}
            if rng.random() < 0.12:
                r["default"] = {"$sentinel": rng.randrange(6)}     # UNSET = object(): a default that only has identity (4, 5: a function / a class meant as the value)
            if not r["inherited"] and rng.random() < 0.25:
                r["base_default"] = rng.choice([d for d in defaults if d != r["default"] or type(d) is not type(r["default"])])
            c["resets"].append(r)
        if len(c["resets"]) >= 2 and rng.random() < 0.15:
            a0, a1 = c["resets"][0], c["resets"][1]
            for k_ in ("base_default",):
                a0.pop(k_, None)
                a1.pop(k_, None)
            a1.update({"alias_of": a0["attr"], "default": a0["default"], "inherited": a0["inherited"]})
        if rng.random() < 0.5:
            sn = {"attr": "keep", "value": rng.choice([11, "s", None])}
            if rng.random() < 0.3:
                sn["shadowed_marker_default"] = rng.choice([0, "base", False])
            c["sentinels"].append(sn)
        for j in range(3 if rng.random() > 0.004 else 40):       # (rarely: dozens of feedback getters on one component)
            if rng.random() < p_fb or j >= 3:
                c["feedbacks"].append(_gen_fb(rng, fbnames, j, uid))
        for other in cnames:
            if other != cn and rng.random() < 0.25:
                c["inject"].append(other)
        if pid in ("C05", "C06") and rng.random() < 0.2:
            c["is_sm"] = True
            c["has_on_enable"] = c["has_on_disable"] = True
        r_ = rng.random()
        if r_ < 0.08:
            c["truth"] = "len0"
        elif r_ < 0.14:
            c["truth"] = "boolFalse"
        if rng.random() < 0.15:
            c["eq_all"] = True
        if not c.get("is_sm") and rng.random() < 0.2:
            c["hook_kind"] = rng.choice(["static", "partial"])
        if not c.get("is_sm") and rng.random() < 0.2:
            c["magic_component"] = True
        for rr in c["resets"]:
            if not rr["inherited"] and rng.random() < 0.2:
                rr["ctor_value"] = rng.choice([9, "ctor", True, 2.5])
        comps[cn] = c
    if n >= 2 and rng.random() < (0.35 if pid == "C10" else 0.2):
        # two components that are instances of ONE class (`left: Shooter; right: Shooter`)
        import copy
        a, b = rng.sample(cnames, 2)
        comps[b] = copy.deepcopy(comps[a])
        comps[b]["same_class_as"] = a
        comps[a].pop("hook_kind", None)
        comps[b].pop("hook_kind", None)
        for cn in (a, b):
            comps[cn]["inject"] = [x for x in comps[a]["inject"] if x not in (a, b)]
        if rng.random() < 0.5:
            # ... or b's class derives from a's class and adds markers / feedback getters of its own
            ex_r = [{"attr": f"x{j}", "default": rng.choice(defaults)} for j in range(rng.choice([1, 2]))]
            ex_f = [_gen_fb(rng, fbnames, 1000 + j, uid) for j in range(rng.choice([0, 1, 2]))]      # (numbered well above the base class's own getters: up to 40 of those)
            for f_ in ex_f:
                f_["same_object"] = False
            comps[b]["extra_resets"] = ex_r
            comps[b]["extra_feedbacks"] = ex_f
            comps[b]["resets"] = comps[b]["resets"] + ex_r
            comps[b]["feedbacks"] = comps[b]["feedbacks"] + ex_f
    order_ = [x for rc_ in robot_classes for x in rc_["components"]]
    for k_, cn_ in enumerate(order_):
        shared_ = comps[cn_].get("same_class_as") or any(o_.get("same_class_as") == cn_ for o_ in comps.values())
        if k_ and not shared_ and rng.random() < 0.15:
            comps[cn_]["ctor_inject"] = [rng.choice(order_[:k_])]     # __init__ asks for an earlier-declared component
    robot_fbs = [_gen_fb(rng, fbnames, 10 + j, uid) for j in range(2) if rng.random() < p_fb]
    r = rng.random()
    if r < 0.12:
        modes = None
    elif r < 0.2:
        modes = []
    else:
        k = rng.choice([1, 1, 2, 3])
        d = rng.randrange(k) if rng.random() < 0.85 else None
        modes = [{"name": f"m{i}{uid}", "default": i == d} for i in range(k)]
        for m_ in modes:
            if rng.random() < 0.12:
                m_["falsy"] = rng.choice(["len", "bool"])       # a mode object that is falsy (an empty step queue)
        if cnames and rng.random() < 0.08:
            modes[0]["name"] = rng.choice(cnames)            # a mode that carries the same name as a component
    period = rng.choice(PERIODS)
    # ---- history
    hist = []
    last = None
    total = 0
    for _ in range(rng.choice([3, 4, 5, 6, 9]) if rng.random() > 0.01 else 110):       # (rarely: more than a hundred mode changes)
        m = rng.choice([x for x in MODES if x != last])
        dw = rng.choice([1, 1, 2, 3, 5, 8, 25]) if pid != "C07" else rng.choice([1, 2, 6, 8, 12])
        if rng.random() < 0.004:
            dw = 650            # a long stay in one mode (hundreds of iterations)
        hist.append([m, dw])
        total += dw
        last = m
    dflags = {str(i): [rng.random() < 0.4, rng.random() < 0.4] for i, (m, _) in enumerate(hist) if m == "disabled"}
    spec = {"uid": uid, "pid": pid, "period_us": period, "teleop_in_auto": rng.random() < 0.5, "fms": False,
            "robot_classes": robot_classes, "components": comps, "robot_feedbacks": robot_fbs, "modes": modes,
            "history": hist, "disabled_flags": dflags, "super_robot_periodic": rng.random() < 0.3, "plan": {}}
    spec["period_on_instance"] = rng.random() < 0.2
    if rng.random() < 0.04:
        spec["uptime_us"] = rng.choice([2 ** 31, 2 ** 32, 10 ** 10, 9 * 10 ** 10, 2 * 10 ** 11])       # the robot has been up for hours
    spec["teleop_in_auto_as_int"] = rng.random() < 0.3
    if rng.random() < (0.4 if pid == "C07" else 0.1):
        # some periodic methods wrap their body in `with self.consumeExceptions():` and carry on after the block
        spec["consume_hooks"] = sorted(rng.sample(["disabledPeriodic", "teleopPeriodic", "testPeriodic"], rng.choice([1, 2, 3])))
    if rng.random() < (0.5 if pid == "C07" else 0.1):
        spec["match_type"] = rng.choice(["practice", "qualification", "elimination"])
    if modes and rng.random() < 0.3:
        spec["auto_selector"] = rng.choice([m["name"] for m in modes] + ["nosuchmode"])
    if rng.random() < 0.25:
        # a robot that does not override every mode hook: MagicRobot's own (empty / nagging) default runs instead
        hk = ["disabledInit", "disabledPeriodic", "teleopInit", "teleopPeriodic", "autonomousInit", "testInit", "testPeriodic"]
        spec["omit_hooks"] = sorted(rng.sample(hk, rng.choice([1, 2, 3, 7])))
    sites = all_sites(spec)
    if rng.random() < 0.3:
        # in some segments the driver station changes mode in the middle of the last iteration, not between two
        es = {}
        for si, (m_, _dw) in enumerate(hist[:-1]):
            if rng.random() < 0.5:
                pool_ = ["R.robotPeriodic"] + fb_sites(spec)
                if m_ == "disabled":
                    pool_.append("R.disabledPeriodic")
                elif m_ == "test":
                    pool_.append("R.testPeriodic")
                else:
                    pool_ += [f"{c_}.execute" for c_ in decl_order(spec)]
                    if m_ == "teleop" or spec["teleop_in_auto"]:
                        pool_ += ["R.teleopPeriodic"] * 2
                    if m_ == "auto" and active_mode(spec):
                        pool_ += [f"M.{active_mode(spec)}.on_iteration"] * 2
                pool_ = [x for x in pool_ if x[2:] not in spec.get("omit_hooks", ())]
                es[str(si)] = rng.choice(pool_)
        if es:
            spec["early_switch"] = es
    plan = spec["plan"]

    def at(site, idx):
        return plan.setdefault(site, {}).setdefault(str(idx), {})
    # ---- loop-body durations
    if pid in ("C05", "C06") or rng.random() < 0.3:
        for _ in range(rng.choice([0, 2, 5, 10])):
            s = rng.choice(sites["any"])
            at(s, rng.randrange(0, max(1, total)))["adv"] = rng.choice([1, 100, period // 2, period - 1, period, period + 1, 2 * period, int(3.5 * period),
                                                                   rng.randrange(1, 2 * period)])
    # ---- assignments
    tracked = [(cn, r["attr"], True) for cn, c in comps.items() for r in c["resets"]] + \
              [(cn, s["attr"], False) for cn, c in comps.items() for s in c["sentinels"]] + \
              [(cn, a, False) for cn, c in comps.items() for a in c["inject"] if c["resets"]]
    if tracked and (pid == "C10" or rng.random() < 0.3):
        for _ in range(rng.choice([3, 8, 20]) if pid == "C10" else 3):
            s = rng.choice(sites["any"])
            cn, attr, _m = rng.choice(tracked)
            at(s, rng.randrange(0, max(1, total))).setdefault("assign", []).append([cn, attr, rng.choice([1, 2, "go", True, 0.25, None, 0, False])])
    # ---- faults
    want_faults = (pid == "C07" or (pid in ("C10", "C11") and rng.random() < 0.5) or (pid == "C06" and rng.random() < 0.3)
                   or (pid == "C05" and rng.random() < 0.25))
    if want_faults:
        spec["fms"] = rng.random() < 0.6 if pid == "C07" else True
        pool = sites["faultable"]
        if pid == "C06":
            # lifecycle sites only: with the FMS attached the bracket must survive a raising on_enable / on_disable / init hook
            pool = [x for x in pool if site_kind(x) in ("on_enable", "on_disable", "init", "mode.on_enable", "mode.on_disable")]
        if pid == "C05":
            # iteration-body sites only: with the FMS attached every other callback of the iteration still runs, in order
            pool = [x for x in pool if owner_of_site(x) == "C05"]
        if pid in ("C10", "C11") and rng.random() < 0.3:
            # the field connects while the robot is already in some mode; the faults come later
            # ... preferably so that the first fault still falls into the mode segment in which the field connected
            starts, acc_it = [], 0
            for (m_, dw_) in hist:
                if dw_ >= 3:
                    starts.append(acc_it)
                acc_it += dw_
            k_att = rng.choice(starts) if starts and rng.random() < 0.7 else rng.randrange(0, max(1, total // 3))
            spec["fms"] = False
            spec["fms_changes"] = {str(k_att): True}
            spec["fault_from"] = k_att + 1
        if pid == "C07" and rng.random() < 0.35:
            # the field connects / disconnects while the robot is running (also while it stays in one mode)
            spec["fms_changes"] = {str(rng.randrange(0, max(1, total))): (not spec["fms"]) if j == 0 else rng.random() < 0.5
                                   for j in range(rng.choice([1, 1, 2]))}
        if pid == "C11" and sites["fb"] and rng.random() < 0.7:
            pool = sites["fb"]
        if pid in ("C07", "C10") and rng.random() < 0.02:
            # a fault storm: one callback fails in every iteration of a long stay in one mode (a sensor that went away),
            # every time with the very same exception object (a failed Future re-raising its stored exception)
            storm_mode = rng.choice(["auto", "teleop", "teleop", "disabled"])
            spec["history"] = [[storm_mode, 700]]
            spec["period_us"] = rng.choice([20000, 50000])
            spec["fms"] = True
            spec.pop("fms_changes", None)
            spec.pop("early_switch", None)
            cand = [x for x in sites["faultable"] if site_kind(x) in ("execute", "feedback", "robotPeriodic")
                    or (storm_mode == "auto" and site_kind(x) == "mode.on_iteration")
                    or (storm_mode == "teleop" and x == "R.teleopPeriodic") or (storm_mode == "disabled" and x == "R.disabledPeriodic")]
            if storm_mode == "disabled":
                cand = [x for x in cand if site_kind(x) != "execute"]
            s_ = rng.choice(cand)
            if rng.random() < 0.3:
                # ... or only now and then over a much longer stay: a fault every 12.5 s for a minute and a half
                spec["history"] = [[storm_mode, 1700]]
                spec["period_us"] = 50000
                for i_ in range(0, 1750, 250):
                    at(s_, i_)["raise"] = rng.choice(["plain", "sameobj"])
                spec["fault_storm_sparse"] = True
            else:
                for i_ in range(0, 720):
                    at(s_, i_)["raise"] = "sameobj"
            spec["fault_storm"] = s_
            if tracked and storm_mode != "disabled":
                # marked attributes keep being assigned long into the storm (by the mode's own code and by components)
                assigners = [x for x in sites["any"] if site_kind(x) in ("execute",) or x in ("R.teleopPeriodic",) or site_kind(x) == "mode.on_iteration"]
                for _ in range(12):
                    cn_, attr_, _m = rng.choice(tracked)
                    if assigners:
                        at(rng.choice(assigners), rng.randrange(255, 690)).setdefault("assign", []).append([cn_, attr_, rng.choice([1, "go", True, 0.25])])
            return spec
        for _ in range(rng.choice([1, 1, 2, 3])):
            if not pool:
                break
            s = rng.choice(pool)
            pat = rng.choice(["first", "kth", "kth", "every"])
            kind = rng.choices(["plain", "attr", "key", "base", "unhashable"], [62, 12, 8, 10, 8])[0]
            lo = spec.get("fault_from", 0)
            if lo and site_kind(s) not in ("feedback", "robotPeriodic"):
                continue            # only sites that run once per iteration in every mode have a known invocation index
            if pat == "first":
                at(s, lo)["raise"] = kind
            elif pat == "kth":
                at(s, lo + rng.randrange(0, max(1, total // 2 + 1)))["raise"] = kind
            else:
                for i in range(lo, total + 12):
                    at(s, i)["raise"] = kind
    return spec


def _gen_fb(rng, fbnames, j, uid):
    from .robot_build import HINTS
    base = rng.choice(fbnames)
    name = f"{base}{j}{uid}"
    key = None
    if rng.random() < 0.3:
        key = rng.choice([f"k{j}{uid}", f"sub{uid}/k{j}", f"get_k{j}{uid}"])
    hint = rng.choice(HINTS)
    return {"name": name, "key": key, "hint": hint, "variant": rng.randrange(5),
            "nohint_kind": rng.choice(["float", "bool", "str", "int"]),
            "fn_name": rng.choice([None, None, None, None, None, "wrapper", "<lambda>"]), "parens": rng.random() < 0.3,
            "same_object": bool(hint and hint.endswith("[]") and rng.random() < 0.4),
            "string_hint": bool(hint) and rng.random() < 0.3}


def decl_order(spec):
    out = []
    for rc in spec["robot_classes"]:      # base classes first
        out.extend(rc["components"])
    return out


def active_mode(spec):
    modes = spec.get("modes")
    if not modes:
        return None
    if spec.get("auto_selector") in [m["name"] for m in modes]:
        return spec["auto_selector"]            # the dashboard string wins when it names a mode
    d = [m["name"] for m in modes if m.get("default")]
    return d[0] if d else None


def fb_sites(spec):
    out = [f"R.fb.{fb['name']}" for fb in spec.get("robot_feedbacks", ())]
    for cn in decl_order(spec):
        out += [f"{cn}.fb.{fb['name']}" for fb in spec["components"][cn]["feedbacks"]]
    return out


def all_sites(spec):
    order = decl_order(spec)
    comps = spec["components"]
    hooks = ["R.disabledInit", "R.disabledPeriodic", "R.teleopInit", "R.teleopPeriodic", "R.autonomousInit", "R.testInit",
             "R.testPeriodic", "R.robotPeriodic"]
    hooks = [h for h in hooks if h[2:] not in spec.get("omit_hooks", ())]
    s = list(hooks)
    for cn in order:
        s.append(f"{cn}.execute")
        if comps[cn]["has_on_enable"]:
            s.append(f"{cn}.on_enable")
        if comps[cn]["has_on_disable"]:
            s.append(f"{cn}.on_disable")
    fbs = fb_sites(spec)
    am = active_mode(spec)
    ms = [f"M.{am}.{h}" for h in ("on_enable", "on_iteration", "on_disable")] if am else []
    return {"any": s + fbs + ms, "faultable": s + fbs + ms, "fb": fbs}


# ----------------------------------------------------------------------------- expected trace (from the statements)
def expected_chunks(spec):
    """List of chunks; chunk i ends at arrival i.  A chunk is a list of slots (kind, sites, owner property)."""
    order = decl_order(spec)
    comps = spec["components"]
    on_en = [f"{c}.on_enable" for c in order if comps[c]["has_on_enable"]]
    on_dis = [f"{c}.on_disable" for c in order if comps[c]["has_on_disable"]]
    execs = [f"{c}.execute" for c in order]
    fbs = fb_sites(spec)
    am = active_mode(spec)

    def enter(m):
        if m == "disabled":
            return [("set", on_dis, "C06"), ("seq", ["R.disabledInit"], "C06")]
        if m == "teleop":
            return [("seq", on_en, "C06"), ("seq", ["R.teleopInit"], "C06")]
        if m == "auto":
            return [("seq", on_en, "C06"), ("seq", ["R.autonomousInit"], "C06")] + ([("seq", [f"M.{am}.on_enable"], "C06")] if am else [])
        return [("seq", ["R.testInit"], "C06")]

    def leave(m):
        if m == "teleop":
            return [("set", on_dis, "C06")]
        if m == "auto":
            return ([("seq", [f"M.{am}.on_disable"], "C06")] if am else []) + [("set", on_dis, "C06")]
        return []

    def iteration(m):
        if m == "disabled":
            return [("seq", ["R.disabledPeriodic"], "C05"), ("set", fbs, "C05"), ("seq", ["R.robotPeriodic"], "C05")]
        if m == "test":
            return [("seq", ["R.testPeriodic"], "C05"), ("set", fbs, "C05"), ("seq", ["R.robotPeriodic"], "C05")]
        pre = []
        if m == "auto":
            if am:
                pre.append(("seq", [f"M.{am}.on_iteration"], "C05"))
            if spec["teleop_in_auto"]:
                pre.append(("seq", ["R.teleopPeriodic"], "C05"))
        else:
            pre.append(("seq", ["R.teleopPeriodic"], "C05"))
        return pre + [("seq", execs, "C05"), ("set", fbs, "C05"), ("seq", ["R.robotPeriodic"], "C05")]

    chunks = []
    meta = []
    om = {f"R.{h}" for h in spec.get("omit_hooks", ())}
    cons = {f"R.{h}" for h in spec.get("consume_hooks", ())} - om
    startup = [("set", [f"{comps[c].get('same_class_as', c)}.ctor" for c in order], "C06"), ("set", [f"{c}.setup" for c in order if comps[c]["has_setup"]], "C06")]
    prev = None
    for si, (m, dwell) in enumerate(spec["history"]):
        for k in range(dwell):
            slots = []
            if k == 0:
                if prev is None:
                    slots += startup
                else:
                    slots += leave(prev)
                slots += enter(m)
            slots += iteration(m)
            if om:
                slots = [(k_, [x for x in st_ if x not in om], o_) for k_, st_, o_ in slots]
            if cons:
                slots = [(k_, [y for x in st_ for y in ((x, x + ".after") if x in cons else (x,))], o_) if k_ == "seq" else (k_, st_, o_)
                         for k_, st_, o_ in slots]
            chunks.append([s for s in slots if s[1]])
            meta.append({"mode": m, "seg": si, "k": k, "prev": prev if k == 0 else m})
        prev = m
    return chunks, meta, leave(prev)


def check_bracket(spec, run, V, acc):
    """C06's closing sentence, stated directly on the observed log (no expected sequence needed): for a component that has
    both hooks, execute() only ever runs after its on_enable() and before its next on_disable()."""
    state = {}
    for cn, c in spec["components"].items():
        if c["has_on_enable"] and c["has_on_disable"]:
            state[cn] = False
    if not state:
        return
    for e in run.log:
        if e[0] != "cb":
            continue
        site = e[1]
        cn, _, what = site.rpartition(".")
        if cn not in state:
            continue
        if what == "on_enable":
            state[cn] = True
        elif what == "on_disable":
            state[cn] = False
        elif what == "execute":
            acc.checks += 1
            V.ev("execute-inside-bracket-checked")
            if not state[cn]:
                V.add("C06", "execute-outside-bracket", f"{site}#{e[2]} ran while {cn} was not between its on_enable() and its next on_disable()")
                return


def check_auto_mode_iterations(spec, run, V, acc):
    """C05, stated directly on each observed autonomous iteration of a fault-free run (independent of the alignment of
    the whole callback sequence): the selected mode's on_iteration runs exactly once, before any component's execute,
    and no other mode's on_iteration runs."""
    if any(e[0] == "raise" for e in run.log):
        return
    _, meta, _ = expected_chunks(spec)
    obs, _tail = split_chunks(run.log)
    am = active_mode(spec)
    want = [f"M.{am}.on_iteration"] if am else []
    for ci in range(min(len(obs), len(meta))):
        if meta[ci]["mode"] != "auto":
            continue
        sites = [e[1] for e in obs[ci] if e[0] == "cb"]
        its = [x for x in sites if x.startswith("M.") and x.endswith(".on_iteration")]
        acc.checks += 1
        V.ev("auto-iteration-mode-rule-checked")
        if its != want:
            V.add("C05", "auto-mode-iteration", f"iteration #{ci} (auto): on_iteration calls {its}, expected {want} "
                  f"(selected mode: {am!r}, 'Auto Selector' = {spec.get('auto_selector')!r})")
            return
        ex = [i for i, x in enumerate(sites) if x.endswith(".execute")]
        if its and ex and sites.index(its[0]) > ex[0]:
            V.add("C05", "auto-mode-iteration", f"iteration #{ci} (auto): {its[0]} ran after {sites[ex[0]]}")
            return


def site_kind(site):
    if ".fb." in site:
        return "feedback"
    if site.startswith("M."):
        return "mode." + site.rsplit(".", 1)[1]
    if site.startswith("R."):
        h = site[2:]
        if h == "robotPeriodic":
            return "robotPeriodic"
        return "init" if h.endswith("Init") else "periodic"
    return site.rsplit(".", 1)[1]


def owner_of_site(site):
    k = site_kind(site)
    return "C05" if k in ("feedback", "robotPeriodic", "periodic", "execute", "mode.on_iteration") else "C06"


# ----------------------------------------------------------------------------- monitors
class Verdicts:
    def __init__(self):
        self.div = []      # (property, kind, detail)
        self.events = {}

    def add(self, prop, kind, detail):
        self.div.append((prop, kind, detail))

    def ev(self, k, n=1):
        self.events[k] = self.events.get(k, 0) + n


def split_chunks(log):
    """Returns (chunks of events, tail after the last arrival)."""
    chunks, cur = [], []
    for e in log:
        if e[0] == "arrival":
            chunks.append(cur)
            cur = []
        else:
            cur.append(e)
    return chunks, cur


def check_sequence(spec, run, V: Verdicts, acc):
    exp_chunks, meta, leave_last = expected_chunks(spec)
    log = run.log
    obs_chunks, tail = split_chunks(log)
    fms = spec["fms"]
    fired = []       # raise events in order
    n_cmp = min(len(exp_chunks), len(obs_chunks))
    first_fault_chunk = None
    died = run.escaped is not None
    for ci in range(n_cmp):
        cbs = [e for e in obs_chunks[ci] if e[0] == "cb"]
        sites = [e[1] for e in cbs]
        for e in obs_chunks[ci]:
            if e[0] == "raise":
                fired.append((ci, e[1], meta[ci]["mode"]))
                if first_fault_chunk is None:
                    first_fault_chunk = ci
        pos = 0
        bad = None
        for kind, want, owner in exp_chunks[ci]:
            got = sites[pos:pos + len(want)]
            ok = got == want if kind == "seq" else sorted(got) == sorted(want)
            acc.checks += 1
            if not ok:
                bad = (owner, f"iteration #{ci} ({meta[ci]['mode']}, {meta[ci]['prev']}->{meta[ci]['mode']} k={meta[ci]['k']}): expected "
                              f"{'in order' if kind == 'seq' else 'in any order'} {want}, observed {got} (whole iteration: {sites})")
                break
            pos += len(want)
        if bad is None and pos != len(sites):
            extra = sites[pos:]
            bad = (owner_of_site(extra[0]), f"iteration #{ci} ({meta[ci]['mode']}): unexpected extra callbacks {extra} (whole iteration: {sites})")
        if bad is not None:
            V.add(bad[0], "callback-sequence", bad[1])
            return fired, ci
        m = meta[ci]
        V.ev("iteration:" + m["mode"])
        if m["k"] == 0 and m["prev"] is not None:
            V.ev(f"transition:{m['prev']}->{m['mode']}")
        if m["mode"] == "auto" and spec["teleop_in_auto"]:
            V.ev("teleop-in-auto-iteration")
    # ---- the run must have produced every expected iteration (unless a fault legitimately ended it)
    if len(obs_chunks) < len(exp_chunks):
        last_raise = [e for e in log if e[0] == "raise"]
        if last_raise and fault_timeline(spec, log)[1] is not None:
            pass        # a fault fired while the FMS was not attached: judged by check_faults
        elif run.timeout:
            V.add("INCONCLUSIVE", "timeout", f"robot thread neither parked nor ended within the watchdog after {len(obs_chunks)} iterations")
        else:
            owner = "C07" if last_raise else "C05"
            kind = "loop-stopped"
            if last_raise:
                sk = site_kind(last_raise[-1][1])
                if last_raise[-1][1] == "R.teleopPeriodic" and meta[min(len(obs_chunks), len(meta) - 1)]["mode"] == "auto":
                    sk = "teleopPeriodic-in-auto"
                kind = "loop-stopped-by-fault-at:" + sk
            V.add(owner, kind, f"the control loop stopped after {len(obs_chunks)} of {len(exp_chunks)} iterations; escaped={run.escaped!r}")
        return fired, n_cmp
    # ---- after endCompetition(): shutdown leaves the mode like any other mode change (the quantifier includes shutdown
    # in any mode): the leave callbacks of teleop / autonomous are delivered, and nothing else
    tail_sites = [e[1] for e in tail if e[0] == "cb"]
    allowed = {s for slot in leave_last for s in slot[1]}
    extra = [s for s in tail_sites if s not in allowed]
    acc.checks += 2
    propagated = fault_timeline(spec, log)[1] is not None
    if extra:
        V.add("C06", "after-endCompetition", f"callbacks after endCompetition(): {tail_sites}, only {sorted(allowed)} may run")
    elif not propagated and sorted(tail_sites) != sorted(s for slot in leave_last for s in slot[1]):
        V.add("C06", "no-on_disable-at-shutdown", f"endCompetition() in {meta[-1]['mode']}: expected the leave callbacks "
                                                  f"{sorted(allowed)}, observed {tail_sites}")
    else:
        V.ev("end:" + meta[-1]["mode"])
    return fired, n_cmp


def check_setup(spec, run, V, acc):
    for e in run.log:
        if e[0] == "cb" and e[1].endswith(".setup"):
            a = e[6]
            acc.checks += 1
            V.ev("setup-checked")
            if not a["all_components_exist"] or not all(a["injected_identity"]) or not a.get("all_injected", True):
                V.add("C06", "setup-before-wiring", f"{e[1]} ran with all_components_exist={a['all_components_exist']} "
                                                    f"own injected_identity={a['injected_identity']} every-component-injected={a.get('all_injected')}")
            if a.get("n_resets"):
                V.ev("will_reset_to-read-in-setup", a["n_resets"])
            if a.get("resets_not_at_default"):
                V.add("C10", "not-at-default-in-setup", f"{e[1]} read will_reset_to attributes that were not at their declared default: {a['resets_not_at_default'][:3]}")


def check_mode_and_timing(spec, run, V, acc):
    names = {"disabled": "disabled", "auto": "auto", "teleop": "teleop", "test": "test"}
    P = spec["period_us"]
    chunks, _ = split_chunks(run.log)
    arrivals = [e for e in run.log if e[0] == "arrival"]
    _, meta, _ = expected_chunks(spec)
    delays = run.delays        # (creation time, period, handle) per NotifierDelay, in creation order
    for ci, ch in enumerate(chunks[:len(meta)]):
        m = meta[ci]
        for e in ch:
            if e[0] == "cb" and e[5] is not None and (e[1].startswith("R.") and e[1].endswith("Periodic") or e[1].endswith(".on_iteration")):
                acc.checks += 1
                V.ev("mode-string-checked")
                if e[5] != names[m["mode"]]:
                    V.add("C05", "robot-mode-topic", f"/robot/mode is {e[5]!r} inside {e[1]} while running {m['mode']} (iteration #{ci})")
                    return
    # timing: within a mode one iteration per P of FPGA time: iteration k>=1 of a segment starts at
    # max(T + k*P, end of the previous body), where T is the instant the segment's first iteration body started
    seg_of = {}
    for ci, m in enumerate(meta):
        seg_of.setdefault(m["seg"], []).append(ci)
    for si, cis in sorted(seg_of.items()):
        if cis[0] >= len(chunks):
            break
        body0 = next((e for e in chunks[cis[0]] if e[0] == "cb" and owner_of_site(e[1]) == "C05"), None)
        if body0 is None:
            continue
        T = body0[3]
        for k, ci in enumerate(cis):
            if ci >= len(chunks) or k == 0:
                continue
            first = next((e for e in chunks[ci] if e[0] == "cb"), None)
            if first is None:
                continue
            prev_end = arrivals[ci - 1][1]
            want = max(T + k * P, prev_end)
            acc.checks += 1
            V.ev("timing-checked")
            if prev_end > T + k * P:
                V.ev("overrun-catchup")
            if first[3] != want:
                V.add("C05", "iteration-timing", f"segment {si} ({meta[ci]['mode']}), iteration {k}: started at {first[3]} us, expected max({T}+{k}*{P}, {prev_end}) = {want} us")
                return


def fault_timeline(spec, log):
    """[(log index, site, fms attached at that moment)] for every raise event, and the index of the first one that
    must propagate (FMS not attached), or None."""
    fms = spec["fms"]
    out = []
    for i, e in enumerate(log):
        if e[0] == "fms":
            fms = e[1]
        elif e[0] == "raise":
            out.append((i, e[1], fms))
    first_prop = next((k for k, x in enumerate(out) if not x[2]), None)
    return out, first_prop


def check_faults(spec, run, V, acc, fired, n_ok):
    log = run.log
    raises = [e for e in log if e[0] == "raise"]
    if not raises:
        if run.escaped is not None:
            V.add("ALL", "crash", f"startCompetition() raised {run.escaped!r} without any injected fault")
        return
    _, meta, _ = expected_chunks(spec)
    chunks, tail = split_chunks(log)

    def mode_of(ev):
        n = 0
        for e in log:
            if e is ev:
                break
            if e[0] == "arrival":
                n += 1
        return meta[min(n, len(meta) - 1)]["mode"]
    tl, first_prop = fault_timeline(spec, log)
    swallowed = tl if first_prop is None else tl[:first_prop]
    if first_prop is None:
        acc.checks += 1
        if run.escaped is not None:
            V.add("C07", "escaped-with-fms", f"FMS attached, fault at {raises[-1][1]} (mode {mode_of(raises[-1])}): {run.escaped!r} left startCompetition()")
            if site_kind(raises[-1][1]) == "feedback":
                # C11's last clause: a raising getter (FMS attached) must not affect the other getters; here it ended them all
                V.add("C11", "raising-getter-stopped-the-loop",
                      f"FMS attached, feedback getter {raises[-1][1]} raised (mode {mode_of(raises[-1])}) and {run.escaped!r} left "
                      f"startCompetition(): no other getter is published any more")
            return
    for i, site, _f in swallowed:
        r = log[i]
        if any(e[0] == "fms" for e in log[:i]):
            V.ev("fault-after-fms-attached-mid-run")
        k = site_kind(site)
        md = mode_of(r)
        if k == "periodic" and site == "R.teleopPeriodic" and md == "auto":
            k = "teleopPeriodic-in-auto"
        V.ev("swallowed:" + k)
        V.ev(f"swallowed-site-mode:{k}:{md}")
        if k in ("on_enable", "on_disable", "init", "mode.on_enable", "mode.on_disable"):
            V.ev("lifecycle-fault-swallowed")
        else:
            V.ev("fault-in-iteration-body-swallowed")
    if first_prop is None:
        # liveness after the last fault
        idx_last = tl[-1][0]
        after = sum(1 for e in log[idx_last:] if e[0] == "arrival")
        V.ev("iterations-after-fault", after)
        return
    i, site, _f = tl[first_prop]
    r = log[i]
    acc.checks += 3
    V.ev("propagated")
    V.ev(f"propagated-site-mode:{site_kind(site)}:{mode_of(r)}")
    if any(e[0] == "fms" for e in log[:i]):
        V.ev("fault-after-fms-change")
    if run.escaped is None:
        V.add("C07", "swallowed-without-fms", f"no FMS: fault at {site} did not propagate out of startCompetition() (thread ended={run.ended})")
        return
    if run.escaped is not run.rec.faults[first_prop]:
        V.add("C07", "wrong-exception", f"no FMS: {run.escaped!r} escaped instead of the injected {run.rec.faults[first_prop]!r}")
        return
    # nothing user-visible may run after the propagating callback
    later = [e[1] for e in log[i + 1:] if e[0] == "cb"]
    if later or len(tl) > first_prop + 1:
        V.add("C07", "callbacks-after-propagation", f"no FMS: callbacks ran after the propagating fault at {site}: {later[:6]}")


def strip_faults(spec):
    import copy
    t = copy.deepcopy(spec)
    for site, steps in t["plan"].items():
        for st in steps.values():
            st.pop("raise", None)
    return t


def check_faults_differential(spec, run, twin, V, acc):
    """C07 by comparison with the same robot, history and plan minus the faults: with the FMS attached the
    callback trace must be identical (every other callback still runs, in order, the loop keeps iterating);
    without it the trace is the twin's up to the propagating callback."""
    a = [e[1] for e in run.log if e[0] == "cb"]
    b = [e[1] for e in twin.log if e[0] == "cb"]
    a_arr = sum(1 for e in run.log if e[0] == "arrival")
    b_arr = sum(1 for e in twin.log if e[0] == "arrival")
    raises = [e for e in run.log if e[0] == "raise"]
    if not raises or twin.escaped is not None or twin.timeout:
        return
    acc.checks += 2
    tl, first_prop = fault_timeline(spec, run.log)
    if first_prop is None:
        if a != b:
            i = next((k for k in range(min(len(a), len(b))) if a[k] != b[k]), min(len(a), len(b)))
            V.add("C07", "trace-differs-from-fault-free-run",
                  f"FMS attached, faults at {sorted({r[1] for r in raises})}: callback #{i} is {a[i] if i < len(a) else None!r}, "
                  f"the fault-free run has {b[i] if i < len(b) else None!r} there (context {a[max(0, i - 3):i + 2]} vs {b[max(0, i - 3):i + 2]})")
        elif a_arr != b_arr:
            V.add("C07", "iterations-differ-from-fault-free-run", f"{a_arr} iterations with faults, {b_arr} without")
        else:
            V.ev("trace-equals-fault-free-twin")
    else:
        n = len([e for e in run.log[:tl[first_prop][0]] if e[0] == "cb"])
        if a[:n] != b[:n]:
            V.add("C07", "prefix-differs-from-fault-free-run", f"callbacks before the propagating fault differ from the fault-free run")
        else:
            V.ev("prefix-equals-fault-free-twin")


def check_resets(spec, run, V, acc):
    comps = spec["components"]
    tracked = []
    for cn, c in comps.items():
        for r in c["resets"]:
            from .robot_rt import resolve
            tracked.append((cn, r["attr"], True, resolve(r["default"])))
            if isinstance(r["default"], dict):
                V.ev("identity-only-default")
            if "base_default" in r:
                V.ev("marker-redeclared-in-subclass")
            if r["attr"].startswith("_"):
                V.ev("private-named-marker")
        if c.get("same_class_as"):
            V.ev("two-components-one-class")
        if c.get("extra_resets"):
            V.ev("component-class-derived-from-another-component-class")
        for s in c["sentinels"]:
            tracked.append((cn, s["attr"], False, s["value"]))
            if "shadowed_marker_default" in s:
                V.ev("marker-shadowed-by-plain-attribute")
        for a in c.get("inject", ()):
            tracked.append((cn, a, False, "<injected>"))
    if not tracked:
        return
    idx = {(t[0], t[1]): i for i, t in enumerate(tracked)}
    shadow = [t[3] for t in tracked]
    # an injected variable holds the injected object until the component re-binds it: judged from its first re-binding on
    dontcare = [t[3] == "<injected>" for t in tracked]
    _, meta, _ = expected_chunks(spec)
    ci = 0
    started = False
    fault_in_iter = False
    n_enabled_assign = 0

    def same(a, b):
        return type(a) is type(b) and a == b
    for e in run.log:
        mode = meta[min(ci, len(meta) - 1)]["mode"]
        if e[0] == "cb":
            if e[1].endswith(".setup") or e[1].startswith("R."):
                started = True
            if not started:
                continue
            snap = e[4]
            for i, t in enumerate(tracked):
                if dontcare[i]:
                    continue
                acc.checks += 1
                V.ev("snapshot-checked")
                v = snap[i]
                if isinstance(v, list):
                    v = tuple(v)
                if not same(v, shadow[i]):
                    what = "will_reset_to attribute" if t[2] else "unmarked attribute"
                    V.add("C10", "stale-or-lost-value", f"{what} {t[0]}.{t[1]} is {snap[i]!r} inside {e[1]}#{e[2]} (iteration #{ci}, {mode}); expected {shadow[i]!r}")
                    return
        elif e[0] == "assign":
            i = idx[(e[1], e[2])]
            v = e[3]
            shadow[i] = tuple(v) if isinstance(v, list) else v
            if tracked[i][3] == "<injected>":
                dontcare[i] = False
                V.ev("injected-variable-rebound-by-the-component")
            if tracked[i][2]:
                if mode in ENABLED:
                    V.ev("assign-enabled")
                    n_enabled_assign += 1
                else:
                    dontcare[i] = True
                    V.ev("assign-disabled-dontcare")
            else:
                V.ev("sentinel-assign")
        elif e[0] == "raise":
            fault_in_iter = True
        elif e[0] == "arrival":
            if mode in ENABLED:
                snap = e[3] if len(e) > 3 else None
                for i, t in enumerate(tracked):
                    if t[2]:
                        shadow[i] = t[3]
                        dontcare[i] = False
                if snap is not None:
                    for i, t in enumerate(tracked):
                        acc.checks += 1
                        v = snap[i]
                        if isinstance(v, list):
                            v = tuple(v)
                        if not dontcare[i] and not same(v, shadow[i]):
                            what = "will_reset_to attribute" if t[2] else "unmarked attribute"
                            V.add("C10", "not-reset", f"after enabled iteration #{ci} ({mode}) {what} {t[0]}.{t[1]} is {snap[i]!r}, expected {shadow[i]!r}")
                            return
                    V.ev("reset-checked-at-arrival")
                    if fault_in_iter:
                        V.ev("fault-in-reset-iteration")
            fault_in_iter = False
            ci += 1
    V.n_enabled_assign = n_enabled_assign


def check_feedbacks(spec, run, V, acc):
    from .robot_build import fb_key, TYPE_STR
    fbs = []
    for fb in spec.get("robot_feedbacks", ()):
        fbs.append((f"R.fb.{fb['name']}", f"/robot/{fb_key(fb)}", fb))
    for cn, c in spec["components"].items():
        for fb in c["feedbacks"]:
            fbs.append((f"{cn}.fb.{fb['name']}", f"/components/{cn}/{fb_key(fb)}", fb))
    if not fbs:
        return
    chunks, _ = split_chunks(run.log)
    _, meta, _ = expected_chunks(spec)
    last = {}
    for ci, ch in enumerate(chunks[:len(run.arrivals)]):
        nt = run.arrivals[ci].get("nt") or {}
        mode = meta[min(ci, len(meta) - 1)]["mode"]
        for site, path, fb in fbs:
            calls = [e for e in ch if e[0] == "cb" and e[1] == site]
            acc.checks += 1
            if len(calls) != 1:
                V.add("C11", "call-count", f"{site} was called {len(calls)} times in iteration #{ci} ({mode})")
                return
            raised = any(e[0] == "raise" and e[1] == site for e in ch)
            got = nt.get(path)
            if raised:
                want = last.get(site, ("<unset>", None))
                V.ev("raised-getter-unchanged")
            else:
                want = (norm(calls[0][6]), None)
                last[site] = want
            V.ev("feedback-value-checked")
            V.ev("mode:" + mode)
            if got is None:
                V.add("INCONCLUSIVE", "nt-reader", f"no NetworkTables reading for {path}")
                return
            if want[0] == "<unset>":
                if got["exists"]:
                    # a getter that has only ever raised publishes nothing
                    if got["value"] is not None:
                        V.add("C11", "published-after-raise", f"{path} holds {got['value']!r} although {site} has only raised so far")
                        return
                continue
            if not values_equal(got["value"], want[0], fb["hint"]):
                V.add("C11", "value", f"after iteration #{ci} ({mode}) {path} holds {got['value']!r}; {site} returned {want[0]!r}"
                                      + (" in its last successful call" if raised else ""))
                return
            V.ev("feedback-type-checked")
            ts = got["type"]
            if fb["hint"] is not None:
                V.ev("hint:" + fb["hint"])
                if ts != TYPE_STR[fb["hint"]]:
                    V.add("C11", "topic-type", f"{path}: topic type {ts!r}, return hint {fb['hint']} requires {TYPE_STR[fb['hint']]!r}")
                    return
            else:
                V.ev("hint:none")
                fam = {"float": ("double",), "int": ("int", "double"), "bool": ("boolean",), "str": ("string",)}[fb.get("nohint_kind", "float")]
                if ts not in fam:
                    V.add("C11", "topic-type", f"{path}: topic type {ts!r} for an un-hinted {fb.get('nohint_kind')} value")
                    return
            if fb.get("same_object"):
                V.ev("same-list-object-mutated")
            if fb.get("string_hint"):
                V.ev("string-return-hint")
            if fb.get("fn_name"):
                V.ev("getter-function-named-differently-from-its-attribute")
            if fb["name"].startswith("_"):
                V.ev("underscore-named-feedback-method")
            if fb.get("key") is not None:
                V.ev("explicit-key")
            elif fb["name"].startswith("get_"):
                V.ev("get_-prefix-stripped")


def norm(v):
    if isinstance(v, (list, tuple)):
        return [norm(x) for x in v]
    return v


def values_equal(got, want, hint):
    got = norm(got)
    if isinstance(want, list):
        return isinstance(got, list) and len(got) == len(want) and all(values_equal(g, w, None) for g, w in zip(got, want))
    if isinstance(want, bool) or isinstance(got, bool):
        return got is want
    if isinstance(want, (int, float)) and isinstance(got, (int, float)):
        return float(got) == float(want)
    return got == want


def make_nt_reader(spec):
    """Independent subscribers on every feedback topic; returns (reader, closer)."""
    import ntcore
    from .robot_build import fb_key
    inst = ntcore.NetworkTableInstance.getDefault()
    subs = []
    paths = []
    for fb in spec.get("robot_feedbacks", ()):
        paths.append((f"/robot/{fb_key(fb)}", fb))
    for cn, c in spec["components"].items():
        for fb in c["feedbacks"]:
            paths.append((f"/components/{cn}/{fb_key(fb)}", fb))
    from wpimath.geometry import Rotation2d
    for path, fb in paths:
        h = fb["hint"]
        if h == "rot":
            sub = inst.getStructTopic(path, Rotation2d).subscribe(Rotation2d(-7.0))
            kind = "struct"
        elif h == "rot[]":
            sub = inst.getStructArrayTopic(path, Rotation2d).subscribe([])
            kind = "struct"
        else:
            sub = inst.getTopic(path).genericSubscribe()
            kind = "generic"
        subs.append((path, kind, sub, inst.getTopic(path)))

    def read():
        out = {}
        for path, kind, sub, topic in subs:
            exists = topic.exists()
            if kind == "generic":
                val = sub.get()
                v = val.value() if val.isValid() else None
            else:
                a = sub.getAtomic()
                v = a.value if (exists and a.time != 0) else None
            out[path] = {"exists": exists, "type": topic.getTypeString() if exists else None, "value": v}
        return out

    def close():
        for _, _, sub, _ in subs:
            c = getattr(sub, "close", None)
            if c is not None:
                c()
        del subs[:]
    return read, close


# ----------------------------------------------------------------------------- one case
def run_case(spec, acc):
    from .robot_build import Run
    from . import robot_rt as rt
    reader, closer = make_nt_reader(spec)
    try:
        run = Run(spec, nt_reader=reader)
        run.execute()
    finally:
        closer()
    V = Verdicts()
    fired, n_ok = check_sequence(spec, run, V, acc)
    check_setup(spec, run, V, acc)
    if spec["pid"] == "C05":
        check_auto_mode_iterations(spec, run, V, acc)
    if spec["pid"] == "C06":
        check_bracket(spec, run, V, acc)
    check_mode_and_timing(spec, run, V, acc)
    check_faults(spec, run, V, acc, fired, n_ok)
    if spec["pid"] == "C07" and any(e[0] == "raise" for e in run.log):
        r2, c2 = make_nt_reader(spec)
        try:
            twin = Run(strip_faults(spec), nt_reader=None).execute()
        finally:
            c2()
        check_faults_differential(spec, run, twin, V, acc)
    seq_broken = any(d[1] == "callback-sequence" or d[1].startswith("loop-stopped") for d in V.div)
    if not seq_broken or spec["pid"] in ("C10", "C11"):
        check_resets(spec, run, V, acc)
        check_feedbacks(spec, run, V, acc)
    if len(spec["robot_classes"]) > 1 and any(rc["components"] for rc in spec["robot_classes"][1:]):
        V.ev("inherited-robot-class")
    if any(c.get("is_sm") for c in spec["components"].values()):
        V.ev("statemachine-component")
    if spec.get("omit_hooks"):
        V.ev("robot-without-some-mode-hooks")
    if spec.get("fault_storm"):
        V.ev("fault-storm:" + site_kind(spec["fault_storm"]))
    if spec.get("fault_storm_sparse"):
        V.ev("a-fault-every-12-seconds-for-a-minute-and-a-half")
    if spec.get("uptime_us"):
        V.ev("fpga-time-of-hours")
    if len(spec["history"]) >= 100:
        V.ev("more-than-a-hundred-mode-changes")
    if len(spec["components"]) > 10:
        V.ev("more-than-ten-components")
    if any(len(c["feedbacks"]) > 32 for c in spec["components"].values()):
        V.ev("dozens-of-feedbacks-on-one-component")
    if any(dw_ >= 600 for _m, dw_ in spec["history"]):
        V.ev("hundreds-of-iterations-in-one-mode")
    if spec.get("consume_hooks"):
        V.ev("periodic-method-uses-consumeExceptions")
        if any(e[0] == "raise" and e[1][2:] in spec["consume_hooks"] for e in run.log):
            V.ev("fault-inside-consumeExceptions-block")
    if spec.get("match_type"):
        V.ev("match-info-present:" + spec["match_type"])
        if not spec["fms"] and not spec.get("fms_changes") and any(e[0] == "raise" for e in run.log):
            V.ev("fault-without-fms-but-with-match-info")
    n_es = sum(1 for e in run.log if e[0] == "early-switch")
    if n_es:
        V.ev("driver-station-changed-mid-iteration", n_es)
    cs = spec["components"].values()
    if any(c.get("truth") for c in cs):
        V.ev("falsy-component")
    if any(c.get("eq_all") and (c.get("same_class_as") or any(o.get("same_class_as") == n for o in cs))
           for n, c in spec["components"].items()):
        V.ev("two-components-comparing-equal")
    if any(c.get("magic_component") for c in cs):
        V.ev("component-derived-from-MagicComponent-through-a-base-class")
    if spec.get("period_on_instance"):
        V.ev("loop-period-set-on-the-instance")
    if spec.get("teleop_in_auto") and spec.get("teleop_in_auto_as_int"):
        V.ev("use_teleop_in_autonomous-given-as-1")
    if any(c.get("hook_kind") for c in cs):
        V.ev("hooks-that-are-not-plain-methods")
    if any(c.get("ctor_inject") for c in cs):
        V.ev("component-constructor-takes-another-component")
    if any(r.get("alias_of") for c in cs for r in c["resets"]):
        V.ev("one-marker-object-under-two-names")
    if any("ctor_value" in r for c in cs for r in c["resets"]):
        V.ev("constructor-assigns-reset-attribute")
    am_ = active_mode(spec)
    if am_ and spec.get("auto_selector") == am_:
        V.ev("mode-chosen-by-auto-selector-string")
    if am_ and any(m.get("falsy") and m["name"] == am_ for m in spec["modes"]):
        V.ev("falsy-mode-object-active")
    if spec.get("modes") and any(m["name"] in spec["components"] for m in spec["modes"]):
        V.ev("mode-named-like-a-component")
    return run, V


def nontrivial(spec, run, V):
    pid = spec["pid"]
    modes = {m for m, _ in spec["history"]}
    direct = any(a[0] in ENABLED and b[0] in ENABLED for a, b in zip(spec["history"], spec["history"][1:]))
    ncomp = len(spec["components"])
    if pid in ("C05", "C06"):
        return ncomp >= 2 and len(modes) >= 3 and direct
    if pid == "C07":
        return any(e[0] == "raise" for e in run.log)
    if pid == "C10":
        return ncomp >= 2 and getattr(V, "n_enabled_assign", 0) >= 2
    nfb = len(spec.get("robot_feedbacks", ())) + sum(len(c["feedbacks"]) for c in spec["components"].values())
    return nfb >= 3 and len(modes) >= 3


def run_shard(spec_):
    pid = spec_["pid"]
    rng = random.Random(spec_["seed"])
    acc = Acc()
    for i in range(spec_["n"]):
        uid = f"{spec_['seed'] % 46656:x}x{i:x}"
        spec = gen_case(rng, pid, uid)
        spec["hist"] = [spec_["seed"], i]
        run, V = run_case(spec, acc)
        acc.evaluations += 1
        for k, n in V.events.items():
            acc.ev(k, n)
        if nontrivial(spec, run, V):
            acc.nontrivial.add(stable_hash(spec))
        mine = [d for d in V.div if d[0] in (pid, "ALL")]
        inc = [d for d in V.div if d[0] == "INCONCLUSIVE"]
        other = [d for d in V.div if d[0] not in (pid, "ALL", "INCONCLUSIVE")]
        if inc:
            acc.ev("case-inconclusive:" + inc[0][1])
            acc.extra.setdefault("inconclusive_cases", []).append(inc[0][2][:300])
        if other:
            acc.ev("divergence-owned-by-other-property:" + other[0][0])
        if mine:
            d = mine[0]
            acc.violation(f"{pid}/{d[1]}", d[2], spec, {"all": [x[2] for x in V.div][:6], "escaped": repr(run.escaped)})
        if len(acc.samples) < 2 and nontrivial(spec, run, V):
            acc.samples.append({"robot_classes": spec["robot_classes"], "history": spec["history"], "modes": spec["modes"],
                                "components": {k: {kk: vv for kk, vv in v.items() if kk in ("has_setup", "has_on_enable", "has_on_disable", "inject")}
                                               for k, v in spec["components"].items()},
                                "plan_sites": sorted(spec["plan"])[:8], "fms": spec["fms"],
                                "log_head": [e[:4] for e in run.log[:25]], "log_len": len(run.log)})
    return acc.result()


def replay(pid, case):
    acc = Acc()
    case = dict(case)
    case["pid"] = pid
    run, V = run_case(case, acc)
    mine = [d for d in V.div if d[0] in (pid, "ALL")]
    if not mine and "hist" in case:
        # not reproducible alone: repeat it behind the robots that ran before it in its shard (process-wide state in the
        # library: caches keyed by id(), class-level containers, counters)
        seed, idx = case["hist"]
        rng = random.Random(seed)
        for i in range(idx):
            prev_ = gen_case(rng, pid, f"{seed % 46656:x}x{i:x}")
            run, V = run_case(prev_, Acc())
            mine = [d for d in V.div if d[0] in (pid, "ALL")]
            if mine:
                # which robot of the sequence trips over recycled ids / shared containers varies from process to process:
                # the same sequence of robots reproduces the violation, on robot #i instead of #idx
                mine = [(mine[0][0], mine[0][1], f"(robot #{i} of the shard's sequence, seed {seed}) " + mine[0][2])]
                break
        else:
            run, V = run_case(case, Acc())
            mine = [d for d in V.div if d[0] in (pid, "ALL")]
    if not mine:
        return None
    d = mine[0]
    return {"key": f"{pid}/{d[1]}", "what": d[2], "all": [x[2] for x in V.div][:6], "escaped": repr(run.escaped),
            "trace": [repr(e)[:200] for e in run.log[-60:]]}
