"""C19 - Toggle, ButtonDebouncer, PeriodicFilter, SimpleWatchdog under scripted sample sequences."""
from __future__ import annotations

import random

from .common import Acc, stable_hash

PROPERTIES = {"C19": "toggle / debouncers / rate limiters"}
GRID = 15625
RULE = {"C19": "four helpers, each driven by random sample sequences under the paused FPGA clock (PeriodicFilter: substituted "
               "monotonic clock on a dyadic grid): Toggle (fake joystick and real wpilib.Joystick fed through "
               "DriverStationSim; accessors get/on/off/bool; with and without debounce), ButtonDebouncer, PeriodicFilter "
               "(levels on both sides of the bypass level), SimpleWatchdog (reset/enable/setTimeout/isExpired/printIfExpired, "
               "timeouts n/1e6 for whole-microsecond n, landings exactly on the timeout).  Non-trivial = sequence with >=2 "
               "state changes / True results / passed low-level records / expiry flips; distinct = hash of the sequence."}
RULE["C19"] += '  Also: two Toggle / ButtonDebouncer objects on one button sampled in turns, truthy non-bool button levels, cases starting at FPGA time exactly 0.'
REQUIRED = {"C19": {"toggle-edge-flip": 2000, "toggle-held-no-flip": 2000, "toggle-on-off-pair": 500, "toggle-real-joystick-case": 20, "toggle-two-objects-on-one-button": 100, "debouncer-constructed-default": 20, "debounce-period-changed-while-in-use": 50, "debouncer-constructed-keyword": 20, "button-down-while-the-object-is-built": 100, "filter-record-created-at-another-time": 1000, "clock-starts-at-zero": 30, "debouncer-two-objects-on-one-button": 50, "toggle-nonbool-levels": 50,
                    "toggle-debounce-flip": 300, "toggle-debounce-suppressed-edge": 100,
                    "debouncer-true": 1000, "debouncer-suppressed-press": 1000, "debouncer-required-true": 300, "debouncer-exact-strict": 30,
                    "filter-bypass-pass": 1000, "filter-low-pass": 500, "filter-low-suppressed": 1000, "filter-through-real-logger": 50,
                    "watchdog-expired": 500, "watchdog-not-expired": 500, "watchdog-exact-landing": 100, "watchdog-warning": 100,
                    "watchdog-warning-suppressed": 100}}
ASSUMPTIONS = {"C19": ["a comparison landing exactly on the period is a tie unless every operand is exactly representable (1/64 s grid)",
                       "ButtonDebouncer: before its first True result nothing is promised while FPGA time <= period"]}


def shards(pid, tier, seed):
    kinds = ["toggle", "toggle_db", "debouncer", "filter", "watchdog"]
    if tier == "quick":
        return [{"kind": k, "n": 400} for k in kinds] + [{"kind": "toggle_real", "n": 30}]
    out = []
    for k in kinds:
        out += [{"kind": k, "n": 60000} for _ in range(3)]
    out.append({"kind": "toggle_real", "n": 2000})
    return out


class FakeJoy:
    def __init__(self):
        self.level = False
        self.reads = 0

    truthy = True     # what a pressed button reads as (custom button sources return masked ints such as 2 or 4)
    falsy = False

    def getRawButton(self, n):
        self.reads += 1
        return self.truthy if self.level else self.falsy


def _clock():
    import wpilib
    import hal.simulation as hs
    return wpilib.RobotController.getFPGATime, hs.stepTimingAsync


def gen_samples(rng, n, grid, with_acc=True):
    """list of [advance_us, level, accessor]"""
    out = []
    level = False
    style = rng.choice(["bouncy", "slow", "held", "random"])
    for _ in range(n):
        r = rng.random()
        if grid:
            adv = GRID * rng.choice([0, 1, 1, 2, 4, 8, 16, 32, 64])
        else:
            adv = rng.choice([0, 1, 20000, 20000, 5000, rng.randrange(0, 200000), rng.randrange(0, 2000000)])
        if style == "bouncy":
            if rng.random() < 0.5:
                level = not level
        elif style == "slow":
            if rng.random() < 0.1:
                level = not level
        elif style == "held":
            if rng.random() < 0.03:
                level = not level
        else:
            level = rng.random() < 0.5
        out.append([adv, level, rng.choice(["get", "on", "off", "bool"]) if with_acc else "get"])
    if rng.random() < 0.05:
        # a button that is held (or stuck) for several hundred samples in a row
        k = rng.randrange(0, len(out))
        acc_ = out[k][2]
        out[k + 1:k + 1] = [[rng.choice([0, 20000, GRID]) if not grid else GRID, True, acc_] for _ in range(rng.choice([260, 300, 520]))]
        out[k][1] = False
    return out


# ----------------------------------------------------------------------------- Toggle
def run_toggle(acc, case):
    from robotpy_ext.control.toggle import Toggle
    now_us, step = _clock()
    real = case.get("real", False)
    period = case.get("period_us")
    _from_zero(case, acc)
    if case.get("grid"):
        r = now_us() % GRID
        if r:
            step(GRID - r)
    if real:
        import wpilib
        from wpilib.simulation import DriverStationSim
        joy = wpilib.Joystick(case["stick"])
        btn = case["button"]
        DriverStationSim.setJoystickButtonCount(case["stick"], 12)

        def set_level(v):
            DriverStationSim.setJoystickButton(case["stick"], btn, v)
            DriverStationSim.notifyNewData()
            wpilib.DriverStation.refreshData()
    else:
        joy = FakeJoy()
        btn = case.get("button", 3)
        if case.get("levels"):
            joy.truthy, joy.falsy = case["levels"]
            acc.ev("toggle-nonbool-levels")

        def set_level(v):
            joy.level = v
    # the level the button happens to have while the object is being built is not a sample
    set_level(bool(case.get("level_at_construction")))
    if case.get("level_at_construction"):
        acc.ev("button-down-while-the-object-is-built")
    def mk():
        return Toggle(joy, btn) if period is None else Toggle(joy, btn, period / 1e6 if not case.get("period_int") else period // 1000000)
    # one Toggle, or two built for the very same joystick object, button and period and sampled in turns: each is judged
    # against the samples it took itself
    toggles = [mk(), mk()] if case.get("twin") else [mk()]
    models = [{"T": False, "prev": False, "last_flip": None, "flips": 0, "first_edge_done": False} for _ in toggles]
    acc.evaluations += 1
    if case.get("twin"):
        acc.ev("toggle-two-objects-on-one-button")
    for i, smp in enumerate(case["samples"]):
        adv, level, accessor = smp[:3]
        which = smp[3] if len(smp) > 3 and case.get("twin") else 0
        t, M = toggles[which], models[which]
        tag = f"toggle #{which} of 2, " if case.get("twin") else ""
        if adv:
            step(adv)
        set_level(level)
        now = now_us()
        if accessor == "get":
            v = t.get()
        elif accessor == "bool":
            v = bool(t)
        elif accessor == "on":
            v = t.on
        else:
            v = not t.off
        acc.checks += 1
        if type(v) is not bool:
            acc.violation("C19/toggle-type", f"accessor {accessor} returned {v!r}", case, {"i": i})
            return
        edge = level and not M["prev"]
        if period is None:
            if edge:
                M["T"] = not M["T"]
                M["flips"] += 1
                acc.ev("toggle-edge-flip")
            elif level:
                acc.ev("toggle-held-no-flip")
            if v is not M["T"]:
                acc.violation("C19/toggle-state",
                              f"{tag}sample {i} ({accessor}, level={level}, previous level it sampled={M['prev']}): toggle state {v}, expected {M['T']}", case, {"i": i})
                return
        else:
            changed = v is not M["T"]
            if changed:
                if not edge:
                    acc.violation("C19/toggle-debounce-change-without-edge",
                                  f"{tag}sample {i}: debounced toggle changed while the button was {'held' if level else 'released'} "
                                  f"(no released-to-pressed edge among the samples it took)", case, {"i": i})
                    return
                if M["last_flip"] is not None:
                    gap = now - M["last_flip"]
                    if gap < period:
                        acc.violation("C19/toggle-debounce-spacing",
                                      f"{tag}two toggle changes {gap} us apart with a debounce period of {period} us", case, {"i": i})
                        return
                M["T"] = v
                M["last_flip"] = now
                M["flips"] += 1
                acc.ev("toggle-debounce-flip")
            elif edge:
                if not M["first_edge_done"]:
                    acc.violation("C19/toggle-debounce-first-edge", f"{tag}sample {i}: first press ever did not change the debounced toggle", case, {"i": i})
                    return
                acc.ev("toggle-debounce-suppressed-edge")
            if edge:
                M["first_edge_done"] = True
        # on is the negation of off for the state after the same sample (button unchanged, clock unchanged)
        if i % 7 == 0:
            on, off = t.on, t.off
            acc.checks += 1
            acc.ev("toggle-on-off-pair")
            if on is off or on is not M["T"]:
                acc.violation("C19/toggle-on-off", f"{tag}sample {i}: on={on!r} off={off!r} toggle={M['T']}", case, {"i": i})
                return
        M["prev"] = level
    if sum(m["flips"] for m in models) >= 2:
        acc.nontrivial.add(stable_hash(case))
    if real:
        acc.ev("toggle-real-joystick-case")


# ----------------------------------------------------------------------------- ButtonDebouncer
def run_debouncer(acc, case):
    from robotpy_ext.control.button_debouncer import ButtonDebouncer
    now_us, step = _clock()
    grid = case.get("grid")
    _from_zero(case, acc)
    if grid:
        r = now_us() % GRID
        if r:
            step(GRID - r)
    joy = FakeJoy()
    period = case["period_us"]
    pv = period // 1000000 if case.get("period_int") else period / 1e6
    def mk():
        how = case.get("ctor", "positional")
        if case.get("via_setter"):
            d_ = ButtonDebouncer(joy, 2)
            d_.set_debounce_period(pv)
        elif how == "default":
            d_ = ButtonDebouncer(joy, 2)                    # "Defaults to 0.5 seconds"
        elif how == "keyword":
            d_ = ButtonDebouncer(joystick=joy, buttonnum=2, period=pv)
        else:
            d_ = ButtonDebouncer(joy, 2, pv)
        return d_
    if case.get("ctor") in ("default", "keyword") and not case.get("via_setter"):
        acc.ev("debouncer-constructed-" + case["ctor"])
    # one debouncer, or two on the same joystick object / button / period sampled in turns, each judged on its own results
    objs = [mk(), mk()] if case.get("twin") else [mk()]
    st = [{"last_true": None, "trues": 0} for _ in objs]
    if case.get("twin"):
        acc.ev("debouncer-two-objects-on-one-button")
    acc.evaluations += 1
    for i, smp in enumerate(case["samples"]):
        adv, level, accessor = smp[:3]
        which = smp[3] if len(smp) > 3 and case.get("twin") else 0
        d, S = objs[which], st[which]
        pc = (case.get("period_changes") or {}).get(str(i))
        if pc is not None:
            # set_debounce_period() while in use: from now on the new period is the one in force (for every object here)
            period = pc
            for o_ in objs:
                o_.set_debounce_period(pc / 1e6)
            acc.ev("debounce-period-changed-while-in-use")
        last_true = S["last_true"]
        tag = f"debouncer #{which} of 2, " if case.get("twin") else ""
        if adv:
            step(adv)
        joy.level = level
        now = now_us()
        v = d.get() if accessor != "bool" else bool(d)
        acc.checks += 1
        if type(v) is not bool:
            acc.violation("C19/debouncer-type", f"get() returned {v!r}", case, {"i": i})
            return
        strict = bool(grid) and period % GRID == 0 and now % GRID == 0 and (last_true is None or last_true % GRID == 0)
        if v:
            if not level:
                acc.violation("C19/debouncer-true-unpressed", f"{tag}sample {i}: True although the button is not pressed", case, {"i": i})
                return
            if last_true is not None:
                gap = now - last_true
                if gap < period or (gap == period and strict):
                    acc.violation("C19/debouncer-spacing", f"{tag}sample {i}: two True results {gap} us apart, period {period} us", case, {"i": i})
                    return
                if gap == period:
                    acc.ev("debouncer-tie-accepted")
            S["last_true"] = now
            S["trues"] += 1
            acc.ev("debouncer-true")
            if S["trues"] >= 2:
                acc.ev("debouncer-required-true")
        else:
            if level:
                since = now - last_true if last_true is not None else None
                if last_true is None:
                    # nothing is promised relative to a non-existent last True while FPGA time <= period
                    if now > period:
                        acc.violation("C19/debouncer-missed-press", f"{tag}sample {i}: pressed, never True before, FPGA time {now} us > period {period} us, got False", case, {"i": i})
                        return
                    acc.ev("debouncer-dont-care-before-first-true")
                elif since > period:
                    acc.violation("C19/debouncer-missed-press", f"{tag}sample {i}: pressed {since} us after the last True (period {period} us) but got False", case, {"i": i})
                    return
                else:
                    acc.ev("debouncer-suppressed-press")
                    if since == period and strict:
                        acc.ev("debouncer-exact-strict")
    if sum(x["trues"] for x in st) >= 2:
        acc.nontrivial.add(stable_hash(case))


# ----------------------------------------------------------------------------- PeriodicFilter
class _FakeTime:
    def __init__(self):
        self.t = 1000.0

    def monotonic(self):
        return self.t


def run_filter(acc, case):
    import logging
    from robotpy_ext.misc import periodic_filter as pf
    ft = _FakeTime()
    real_time = pf.time
    pf.time = ft
    try:
        period = case["period"]
        kw = {} if case.get("bypass") is None else {"bypass_level": case["bypass"]}
        f = pf.PeriodicFilter(period, **kw)
        bypass = case.get("bypass") if case.get("bypass") is not None else logging.WARN
        last_low_pass = None
        passes = 0
        acc.evaluations += 1
        # half of the cases go through a real logging.Logger with the filter attached (the documented use)
        real = case.get("real_logger")
        if real:
            import logging as _l
            got = []

            class H(_l.Handler):
                def emit(h, record):  # noqa
                    got.append(record)
            lg = _l.Logger("vf-filter")       # not registered in the manager: no cross-case state
            lg.setLevel(1)
            lg.addHandler(H())
            lg.addFilter(f)
            old_disable = _l.root.manager.disable
            _l.disable(_l.NOTSET)
        for i, (adv, level) in enumerate(case["records"]):
            ft.t += adv
            if real:
                n0 = len(got)
                lg.log(level, "m%d", i)
                v = len(got) > n0
            else:
                rec = logging.LogRecord(case["names"][i] if case.get("names") else "x", level, "f", 1, "m", (), None)
                cr = case.get("created")
                if cr:
                    # the record was created at another time than it reaches the filter (queued / replayed records): the
                    # period is measured where the filter sits
                    rec.created = 1.7e9 + cr[i]
                    acc.ev("filter-record-created-at-another-time")
                v = f.filter(rec)
            acc.checks += 1
            if level >= bypass:
                if not v:
                    acc.violation("C19/filter-bypass-blocked", f"record {i} of level {level} >= bypass level {bypass} was filtered out", case, {"i": i})
                    return
                acc.ev("filter-bypass-pass")
            elif v:
                if last_low_pass is not None and ft.t - last_low_pass < period:
                    acc.violation("C19/filter-rate", f"record {i}: two low-level records passed {ft.t - last_low_pass} s apart, period {period} s", case, {"i": i})
                    return
                last_low_pass = ft.t
                passes += 1
                acc.ev("filter-low-pass")
            else:
                acc.ev("filter-low-suppressed")
                if i > 1100:
                    acc.ev("filter-more-than-1000-records-in-a-row")
        if passes >= 2:
            acc.nontrivial.add(stable_hash(case))
        if real:
            acc.ev("filter-through-real-logger")
        elif case.get("names") and len(set(case["names"])) > 1:
            acc.ev("filter-shared-by-several-loggers")
    finally:
        pf.time = real_time
        if case.get("real_logger"):
            import logging as _l2
            _l2.disable(old_disable)


# ----------------------------------------------------------------------------- SimpleWatchdog
class _Capture:
    def __init__(self):
        import logging
        self.records = []

        class H(logging.Handler):
            def emit(h, record):  # noqa
                self.records.append(record)
        self.handler = H()
        self.logger = logging.getLogger("simple_watchdog")

    def __enter__(self):
        import logging
        self._old = (self.logger.level, self.logger.propagate, logging.root.manager.disable)
        logging.disable(logging.NOTSET)
        self.logger.setLevel(logging.DEBUG)
        self.logger.propagate = False
        self.logger.addHandler(self.handler)
        return self

    def __exit__(self, *a):
        import logging
        self.logger.removeHandler(self.handler)
        self.logger.setLevel(self._old[0])
        self.logger.propagate = self._old[1]
        logging.disable(self._old[2])


def run_watchdog(acc, case):
    import logging
    from robotpy_ext.misc.simple_watchdog import SimpleWatchdog
    now_us, step = _clock()
    acc.evaluations += 1
    if case.get("start_at") and now_us() < case["start_at"]:
        step(case["start_at"] - now_us())          # e.g. just below 2**32 us (71.6 min of uptime)
        acc.ev("watchdog-around-2^32us")
    with _Capture() as cap:
        timeout = case["timeout_us"]
        w = SimpleWatchdog(timeout / 1e6)
        reset_at = None
        last_warn = None
        flips = 0
        prev_exp = None
        for i, op in enumerate(case["ops"]):
            k = op[0]
            if k == "adv":
                step(op[1])
                continue
            now = now_us()
            n0 = len(cap.records)
            if k in ("reset", "enable"):
                getattr(w, k)()
                reset_at = now
            elif k == "setTimeout":
                timeout = op[1]
                w.setTimeout(timeout / 1e6)
                reset_at = now
            elif k == "addEpoch":
                w.addEpoch(f"e{i}")
            elif k == "disable":
                w.disable()
            elif k == "getTimeout":
                acc.checks += 1
                acc.ev("watchdog-getTimeout")
                if abs(w.getTimeout() - timeout / 1e6) > 1e-12:
                    acc.violation("C19/watchdog-getTimeout", f"getTimeout() is {w.getTimeout()!r} with a timeout of {timeout} us", case, {"i": i})
                    return
            elif k == "getTime":
                if reset_at is None:
                    continue
                acc.checks += 1
                acc.ev("watchdog-getTime")
                if abs(w.getTime() - (now - reset_at) / 1e6) > 1e-9:
                    acc.violation("C19/watchdog-getTime", f"getTime() is {w.getTime()!r}, {now - reset_at} us after the last reset", case, {"i": i})
                    return
            elif k == "isExpired":
                v = w.isExpired()
                if reset_at is None:
                    continue
                acc.checks += 1
                want = now - reset_at > timeout
                if now - reset_at == timeout:
                    acc.ev("watchdog-exact-landing")
                acc.ev("watchdog-expired" if want else "watchdog-not-expired")
                if v is not want:
                    acc.violation("C19/watchdog-expiry",
                                  f"timeout {timeout} us, {now - reset_at} us since the last reset: isExpired() is {v!r}", case, {"i": i})
                    return
                if prev_exp is not None and prev_exp != want:
                    flips += 1
                prev_exp = want
            elif k == "printIfExpired":
                w.printIfExpired()
                warns = [r for r in cap.records[n0:] if r.levelno >= logging.WARNING]
                if reset_at is None:
                    if warns:
                        last_warn = now
                    continue
                acc.checks += 1
                expired = now - reset_at > timeout
                if len(warns) > 1:
                    acc.violation("C19/watchdog-warning-twice", "one printIfExpired() call emitted several warnings", case, {"i": i})
                    return
                if warns:
                    if not expired:
                        acc.violation("C19/watchdog-warning-unexpired",
                                      f"overrun warning although only {now - reset_at} us of {timeout} us have elapsed", case, {"i": i})
                        return
                    if last_warn is not None and now - last_warn < 1000000:
                        acc.violation("C19/watchdog-warning-rate", f"two overrun warnings {now - last_warn} us apart", case, {"i": i})
                        return
                    last_warn = now
                    acc.ev("watchdog-warning")
                elif expired:
                    acc.ev("watchdog-warning-suppressed")
            if k != "printIfExpired" and len(cap.records) > n0 and any(r.levelno >= logging.WARNING for r in cap.records[n0:]):
                acc.violation("C19/watchdog-warning-elsewhere", f"{k} emitted a warning", case, {"i": i})
                return
        if flips >= 2:
            acc.nontrivial.add(stable_hash(case))


# ----------------------------------------------------------------------------- generation
def _from_zero(case, acc):
    """The case starts with the FPGA clock at exactly 0 (a program that has just started; simulation tests do this)."""
    if case.get("from_zero"):
        import hal.simulation as hs
        hs.restartTiming()
        hs.pauseTiming()
        acc.ev("clock-starts-at-zero")


def _maybe_down(rng, c):
    if rng.random() < 0.2:
        c["level_at_construction"] = True
    return c


def _maybe_zero(rng, c):
    if rng.random() < 0.1 and not c.get("grid"):
        c["from_zero"] = True
        c["samples"][0][0] = 0
        c["samples"][0][1] = True      # pressed in the very first sample, at t = 0
    return c


def _maybe_twin(rng, c):
    """Sometimes two Toggle objects watch the same button (e.g. two components each keep their own)."""
    if rng.random() < 0.3:
        c["twin"] = True
        runs = rng.random() < 0.5
        w = 0
        for s in c["samples"]:
            if rng.random() < (0.15 if runs else 0.5):
                w = 1 - w
            s.append(w)
    return c


def gen_case(rng, kind):
    grid = rng.random() < 0.35
    if kind in ("toggle", "toggle_real"):
        c = {"kind": "toggle", "grid": grid, "samples": gen_samples(rng, rng.choice([20, 60, 150]), grid), "button": rng.randrange(1, 8),
             "levels": rng.choice([None, None, [1, 0], [2, 0], [4, 0], [True, None], [0x80, 0]])}
        if kind == "toggle_real":
            c["real"] = True
            c["stick"] = rng.randrange(0, 6)
            c["samples"] = c["samples"][:40]
        _maybe_twin(rng, c)
        return _maybe_down(rng, c)
    if kind == "toggle_db":
        p = GRID * rng.choice([1, 4, 16, 32, 64]) if grid else rng.choice([500000, 100000, 20000, 250000, rng.randrange(1, 1000000)])
        return _maybe_down(rng, _maybe_zero(rng, _maybe_twin(rng, {"kind": "toggle", "grid": grid, "period_us": p, "period_int": p % 1000000 == 0 and rng.random() < 0.5,
                                 "samples": gen_samples(rng, rng.choice([40, 120, 300]), grid)})))
    if kind == "debouncer":
        p = GRID * rng.choice([1, 4, 16, 32, 64]) if grid else rng.choice([500000, 100000, 20000, 1000000, rng.randrange(1, 1000000)])
        samples = gen_samples(rng, rng.choice([40, 120, 300]), grid)
        for s in samples:
            s[1] = s[1] or rng.random() < 0.5        # mostly pressed: exercises the rate limit
            if rng.random() < 0.15:
                s[0] = p if rng.random() < 0.6 else p + rng.choice([-1, 1]) if not grid else p   # land on the period
        c_ = {"kind": "debouncer", "grid": grid, "period_us": p, "period_int": p % 1000000 == 0 and rng.random() < 0.5,
              "via_setter": rng.random() < 0.3, "samples": samples, "ctor": rng.choice(["positional", "positional", "keyword", "default"])}
        if rng.random() < 0.25:
            c_["period_changes"] = {str(rng.randrange(1, len(samples))): rng.choice([20000, 250000, 2000000, rng.randrange(1, 1000000)])
                                    for _ in range(rng.choice([1, 2]))}
            c_["grid"] = False
        if c_["ctor"] == "default" and not c_["via_setter"]:
            c_["period_us"], c_["period_int"], c_["grid"] = 500000, False, False
            for s_ in samples:
                if s_[0] == p:
                    s_[0] = 500000
        return _maybe_zero(rng, _maybe_twin(rng, c_))
    if kind == "filter":
        import logging
        period = rng.choice([0.5, 1.0, 3, 0.25, 2.0, 0.125])
        bypass = rng.choice([None, None, logging.INFO, logging.ERROR, logging.WARN, 25, logging.DEBUG, logging.NOTSET])
        recs = []
        for _ in range(rng.choice([30, 100, 300])):
            adv = rng.choice([0.0, 0.015625, 0.125, 0.25, 0.5, 1.0, period, period / 2, period * 2, rng.randrange(0, 256) / 64])
            recs.append([adv, rng.choice([logging.DEBUG, logging.INFO, logging.INFO, logging.WARN, logging.ERROR, 25, 35, logging.CRITICAL])])
        if rng.random() < 0.03:
            recs = [[rng.choice([0.0, 0.0009765625, 0.001953125]), logging.INFO] for _ in range(1500)] + recs[:20]
            period = rng.choice([3, 4.0])
        c = {"kind": "filter", "period": period, "bypass": bypass, "records": recs, "real_logger": rng.random() < 0.5}
        if rng.random() < 0.35:
            # one filter that sees the records of several loggers (attached to a handler they share)
            c["names"] = [rng.choice(["drive", "arm", "x", "vision"]) for _ in recs]
        if not c["real_logger"] and rng.random() < 0.5:
            t_, cr = 0.0, []
            for _ in recs:
                t_ += rng.choice([0.0, 0.001, period * 1.5, period * 3, 10.0])
                cr.append(t_)
            c["created"] = cr
        return c
    # watchdog
    t = rng.choice([20000, 5000, 1001, 15724, 1000, rng.randrange(1000, 100000), rng.randrange(1000, 3000000)])
    ops = [["reset"]] if rng.random() < 0.9 else [["isExpired"], ["printIfExpired"], ["enable"]]
    cur = t
    for _ in range(rng.choice([20, 60, 150])):
        r = rng.random()
        if r < 0.35:
            a = rng.choice([cur, cur, cur - 1, cur + 1, cur // 2, rng.randrange(0, 2 * cur + 2), 1000000, 999999, 1000001, 400000, 0])
            ops.append(["adv", max(0, a)])
        elif r < 0.6:
            ops.append(["isExpired"])
        elif r < 0.8:
            ops.append(["printIfExpired"])
        elif r < 0.88:
            ops.append([rng.choice(["reset", "enable"])])
        elif r < 0.92:
            cur = rng.choice([20000, 1001, rng.randrange(1000, 200000)])
            ops.append(["setTimeout", cur])
        elif r < 0.94:
            ops.append([rng.choice(["getTime", "getTimeout"])])
        elif r < 0.97:
            ops.append(["addEpoch"])
        else:
            ops.append(["disable"])
        if ops[-1][0] == "adv" and rng.random() < 0.8:
            ops.append(["isExpired"])
    c_ = {"kind": "watchdog", "timeout_us": t, "ops": ops}
    if rng.random() < 0.03:
        c_["start_at"] = 2 ** 32 - rng.choice([1, t // 2, t, 3 * t]) - 1
    return c_


RUN = {"toggle": run_toggle, "debouncer": run_debouncer, "filter": run_filter, "watchdog": run_watchdog}


def run_shard(spec):
    import hal.simulation as hs
    hs.pauseTiming()
    rng = random.Random(spec["seed"])
    acc = Acc()
    for i in range(spec["n"]):
        case = gen_case(rng, spec["kind"])
        RUN[case["kind"]](acc, case)
        if i == 0:
            s = dict(case)
            for k in ("samples", "records", "ops"):
                if k in s:
                    s[k] = s[k][:12]
            acc.samples.append(s)
    return acc.result()


def replay(pid, case):
    import hal.simulation as hs
    hs.pauseTiming()
    acc = Acc()
    RUN[case["kind"]](acc, case)
    return acc.violations[0] if acc.violations else None
