"""Harness-side simulation environment for driving the real MagicRobot loop deterministically.

* the FPGA clock is paused and only moves through stepTimingAsync()
* magicbot.magicrobot.NotifierDelay and robotpy_ext.autonomous.selector.NotifierDelay are replaced by a
  subclass of the real NotifierDelay whose wait() first parks the robot thread at a gate.  While it is
  parked the harness thread owns the world (driver-station words, NetworkTables reads, clock); it then
  advances the clock up to the notifier's programmed alarm and opens the gate, so the real wait() returns
  at exactly the alarm time (or at once, when the loop body overran it).
* robotpy_ext.misc.precise_delay.hal is replaced by a recording proxy of the hal module, which is how the
  harness learns the alarm times the real NotifierDelay programs.

No repository code is modified; wpilib.simulation.stepTiming (synchronous) is never used (it can block
forever across a mode change, see DESIGN.md section 1).
"""
from __future__ import annotations

import threading


class HalProxy:
    """Forwards to the real hal module, recording notifier calls."""

    def __init__(self, real):
        self._real = real
        self.alarms = {}       # handle -> last programmed alarm (us)
        self.calls = []        # (name, handle, arg)
        self.record = False
        self.last_init = None  # handle returned by the latest initializeNotifier()

    def __getattr__(self, name):
        return getattr(self._real, name)

    def initializeNotifier(self):
        r = self._real.initializeNotifier()
        self.last_init = r[0]
        if self.record:
            self.calls.append(("init", r[0], None))
        return r

    def updateNotifierAlarm(self, handle, t):
        self.alarms[handle] = t
        if self.record:
            self.calls.append(("alarm", handle, t))
        return self._real.updateNotifierAlarm(handle, t)

    def stopNotifier(self, handle):
        if self.record:
            self.calls.append(("stop", handle, None))
        return self._real.stopNotifier(handle)

    def cleanNotifier(self, handle):
        if self.record:
            self.calls.append(("clean", handle, None))
        self.alarms.pop(handle, None)
        return self._real.cleanNotifier(handle)

    def waitForNotifierAlarm(self, handle):
        if self.record:
            self.calls.append(("wait", handle, None))
        return self._real.waitForNotifierAlarm(handle)


class Gate:
    """Rendezvous between the robot thread (parks in wait()) and the harness thread."""

    def __init__(self):
        self.cv = threading.Condition()
        self.parked = False        # robot thread is parked at the gate
        self.open = False
        self.ended = False         # robot thread has left startCompetition
        self.arrivals = 0
        self.current_delay = None

    # ---- robot thread
    def park(self, delay):
        with self.cv:
            self.parked = True
            self.current_delay = delay
            self.arrivals += 1
            self.cv.notify_all()
            while not self.open:
                if not self.cv.wait(60):
                    raise RuntimeError("vf: gate never opened (harness died?)")
            self.open = False

    def thread_ended(self):
        with self.cv:
            self.ended = True
            self.cv.notify_all()

    # ---- harness thread
    def wait_parked(self, timeout=30.0):
        """Block until the robot thread parks or ends.  Returns 'parked' | 'ended' | 'timeout'."""
        with self.cv:
            ok = self.cv.wait_for(lambda: self.parked or self.ended, timeout)
            if not ok:
                return "timeout"
            return "parked" if self.parked else "ended"

    def release(self):
        with self.cv:
            self.parked = False      # cleared here, not by the robot thread, or the next wait_parked() could see a stale arrival
            self.open = True
            self.cv.notify_all()

    def wait_ended(self, timeout=30.0):
        with self.cv:
            return self.cv.wait_for(lambda: self.ended, timeout)


class Env:
    """Installed once per worker process."""

    def __init__(self):
        import hal
        import hal.simulation as hs
        import wpilib
        import robotpy_ext.misc.precise_delay as pd
        import magicbot.magicrobot as mr
        import robotpy_ext.autonomous.selector as sel
        self.hs = hs
        self.hal = hal
        self.now = wpilib.RobotController.getFPGATime
        hs.pauseTiming()
        self.proxy = HalProxy(hal)
        pd.hal = self.proxy
        self.gate = None
        env = self
        Real = pd.NotifierDelay

        class GatedNotifierDelay(Real):
            def __init__(self, period):
                self._vf_freed = False
                super().__init__(period)
                self._vf_handle = env.proxy.last_init
                g = env.gate
                if g is not None and env.on_delay_created is not None:
                    env.on_delay_created(self, period)

            # (the overrides hand every return value through: the subclass must be transparent - a library change that
            #  makes __exit__ swallow exceptions via free()'s return value was once masked by a bare `super().free()`)
            def free(self):
                self._vf_freed = True
                return super().free()

            def wait(self):
                g = env.gate
                if g is not None and not self._vf_freed and threading.current_thread() is env.robot_thread:
                    g.park(self)
                return super().wait()

        self.Gated = GatedNotifierDelay
        self.on_delay_created = None
        self.robot_thread = None
        # every name under which the library may reach the class (a refactoring of its imports must not blind the gate)
        import robotpy_ext.misc as misc_pkg
        mr.NotifierDelay = GatedNotifierDelay
        sel.NotifierDelay = GatedNotifierDelay
        misc_pkg.NotifierDelay = GatedNotifierDelay
        self.RealNotifierDelay = Real

    def step_to(self, t_us):
        d = t_us - self.now()
        if d > 0:
            self.hs.stepTimingAsync(d)

    def advance(self, us):
        if us > 0:
            self.hs.stepTimingAsync(us)

    def alarm_of(self, delay):
        """Alarm time the real NotifierDelay last programmed (seen through the hal proxy)."""
        return self.proxy.alarms.get(delay._vf_handle)

    def reset_between_cases(self):
        import wpilib
        from wpilib.simulation import DriverStationSim
        self.hs.resetGlobalHandles()
        self.hs.resetAllSimData()
        DriverStationSim.resetData()
        try:
            wpilib._wpilib._clearSmartDashboardData()
        except Exception:  # noqa
            pass
        self.hs.pauseTiming()
        self.proxy.alarms.clear()
        del self.proxy.calls[:]


_ENV = None


def env() -> Env:
    global _ENV
    if _ENV is None:
        _ENV = Env()
    return _ENV


def set_ds(enabled=False, autonomous=False, test=False, fms=None, ds_attached=True):
    from wpilib.simulation import DriverStationSim as DS
    DS.setEnabled(enabled)
    DS.setAutonomous(autonomous)
    DS.setTest(test)
    DS.setDsAttached(ds_attached)
    if fms is not None:
        DS.setFmsAttached(fms)
    DS.notifyNewData()
