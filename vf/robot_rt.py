"""Runtime recorder called by the generated robot / component / autonomous-mode callbacks.

Everything here runs at the user-code boundary (inside callbacks the framework invokes); nothing reads
framework internals.
"""
from __future__ import annotations

ABSENT = "<absent>"


class _Sentinel:
    """A default with identity semantics only (`UNSET = object()`): no __eq__, not copyable into an equal object."""
    __slots__ = ("n",)

    def __init__(self, n):
        self.n = n

    def __repr__(self):
        return f"<sentinel {self.n}>"


SENTINELS = [_Sentinel(i) for i in range(4)]


def stop_fn():
    """A function that is a value (`strategy = will_reset_to(stop_fn)`), not a factory."""
    raise AssertionError("vf: a will_reset_to default was called")


class NoTarget:
    """A class that is a value (`target = will_reset_to(NoTarget)`)."""

    def __init__(self, *a, **k):
        raise AssertionError("vf: a will_reset_to default was instantiated")


SENTINELS += [stop_fn, NoTarget]


def resolve(v):
    """Spec value -> python object ({'$sentinel': k} stands for one of the identity-only sentinel objects)."""
    if isinstance(v, dict) and "$sentinel" in v:
        return SENTINELS[v["$sentinel"]]
    return v
PERIODIC = {"R.disabledPeriodic", "R.teleopPeriodic", "R.testPeriodic", "R.robotPeriodic"}


class InjectedFault(Exception):
    def __init__(self, site, idx):
        super().__init__(f"injected fault at {site}#{idx}")
        self.site = site
        self.idx = idx


class InjectedAttributeError(AttributeError):
    """A fault that looks like a typo / a None dependency inside user code."""

    def __init__(self, site, idx):
        super().__init__(f"injected AttributeError at {site}#{idx}")
        self.site, self.idx = site, idx


class InjectedKeyError(KeyError):
    def __init__(self, site, idx):
        super().__init__(f"injected KeyError at {site}#{idx}")
        self.site, self.idx = site, idx


class InjectedBaseException(BaseException):
    """Not an Exception subclass (like SystemExit raised by a careless sys.exit() in user code)."""

    def __init__(self, site, idx):
        super().__init__(f"injected BaseException at {site}#{idx}")
        self.site, self.idx = site, idx


class InjectedUnhashable(ValueError):
    """An ordinary exception whose args are not hashable (`raise ValueError("bad readings", [3, 4])`)."""

    def __init__(self, site, idx):
        super().__init__(f"injected ValueError at {site}#{idx}", [site, idx])
        self.site, self.idx = site, idx


FAULT_KINDS = {"unhashable": InjectedUnhashable, True: InjectedFault, "plain": InjectedFault, "attr": InjectedAttributeError, "key": InjectedKeyError,
               "base": InjectedBaseException}


class Recorder:
    def __init__(self, plan, tracked, now, step, mode_sub):
        self.plan = plan            # site -> {str(idx): step}
        self.tracked = tracked      # list of (component name, attribute)
        self.now = now
        self.step = step
        self.mode_sub = mode_sub
        self.log = []
        self.counts = {}
        self.robot = None
        self.faults = []
        self.same = {}
        self.early = None          # {"site": s, "fn": f}: f() runs inside the next call of callback s (a driver-station change mid-iteration)

    def snapshot(self):
        r = self.robot
        out = []
        for comp, attr in self.tracked:
            c = getattr(r, comp, None) if r is not None else None
            out.append(ABSENT if c is None else getattr(c, attr, ABSENT))
        return out

    def cb(self, site, arg=None):
        i = self.counts.get(site, 0)
        self.counts[site] = i + 1
        mode = None
        if site in PERIODIC or site.endswith(".on_iteration"):
            mode = self.mode_sub.get()
        self.log.append(["cb", site, i, self.now(), self.snapshot(), mode, arg])
        if self.early is not None and self.early["site"] == site:
            fn, self.early = self.early["fn"], None
            self.log.append(["early-switch", site])
            fn()
        st = self.plan.get(site)
        if st:
            st = st.get(str(i))
        if st:
            for comp, attr, val in st.get("assign", ()):
                c = getattr(self.robot, comp, None)
                if c is not None:
                    setattr(c, attr, val)
                    self.log.append(["assign", comp, attr, val, site])
            adv = st.get("adv")
            if adv:
                self.step(adv)
            if st.get("raise") == "sameobj":
                # one stored exception object, raised again on every call (its traceback keeps growing)
                e = self.same.get(site)
                if e is None:
                    e = self.same[site] = InjectedFault(site, i)
                self.faults.append(e)
                self.log.append(["raise", site, i])
                raise e
            if st.get("raise"):
                e = FAULT_KINDS[st["raise"]](site, i)
                self.faults.append(e)
                self.log.append(["raise", site, i])
                raise e


CUR: Recorder | None = None


def cb(site, arg=None):
    CUR.cb(site, arg)
