"""C14 - AutonomousModeSelector: discovery, chooser contents, one active mode, clean lifecycle."""
from __future__ import annotations

import gc
import os
import random
import shutil
import sys
import tempfile
import threading

from .common import Acc, stable_hash
from . import sel_rt

PROPERTIES = {"C14": "autonomous selector"}
RULE = {"C14": "generated packages on disk (0-5 modules, 0-4 classes per module with/without MODE_NAME, DISABLED, DEFAULT; duplicate "
               "names, several defaults, modules raising at import or with syntax errors, constructors raising, helper classes "
               "imported across modules, missing package), FMS attached or not, selection through chooser default / "
               "SendableChooserSim / 'Auto Selector' string naming a mode or nothing; then either start/periodic/disable histories "
               "(incl. disable without start, double disable, periodic after disable) or run() periods in a gated thread.  "
               "Non-trivial = >=2 eligible modes and >=1 period with a chosen mode; distinct = hash of (package, selection, history)."}
RULE["C14"] += "  Also: mode classes imported from a library module, realistic module names, falsy mode objects, BaseException failures, 1 ms run() period, mid-period and post-period disable(); replays re-run the shard's preceding cases."
REQUIRED = {"C14": {"healthy-package": 200, "fault:duplicate": 30, "fault:defaults": 30, "fault:import": 30, "fault:ctor": 30,
                    "fault-raised-without-fms": 60, "fault-tolerated-with-fms": 60, "missing-package": 10, "disabled-class-skipped": 50,
                    "select:chooser-default": 50, "select:chooser-sim": 50, "select:auto-selector": 50, "select:auto-selector-unknown": 20,
                    "select:none": 30, "period-api": 200, "period-run": 60, "iteration-checked": 2000, "after-disable-silent": 100,
                    "other-modes-silent-checked": 200, "chooser-options-checked": 200, "disable-after-run-silent": 30, "disable-mid-run": 15, "reselected-between-periods": 50, "elapsed-time-checked": 500,
                    "mode-class-imported-from-library-module": 20, "run-period-of-1ms": 5,
                    "fault-is-a-BaseException": 10, "selector-forwards-constructor-arguments": 100, "constructor-fails-with-TypeError": 3, "namespace-package": 30, "run-with-watchdog": 20, "run-iter_fn:none": 10, "run-iter_fn:list": 10, "period-without-disable": 20, "missing-dotted-package": 3, "falsy-mode-object-chosen": 5, "run-elapsed-time-checked": 100, "run-iteration-overran-the-loop-period": 20}}
ASSUMPTIONS = {"C14": ["a mode class re-exported by a second module is not generated (the statement does not say whether it is found twice)",
                       "a mode class that exactly one package module imports from a module outside the package counts as 'found in the modules of the package'",
                       "with several DEFAULT modes and the FMS attached the preselected mode may be any of them",
                       "periodic() before the first start() is not generated (unspecified); a period that never gets disable() ends at the next start() (documented as allowed) - whether that start() delivers on_disable to the old mode is not specified and either is accepted"]}


def shards(pid, tier, seed):
    if tier == "quick":
        return [{"n": 60} for _ in range(12)]
    return [{"n": 800} for _ in range(64)]


def gen_case(rng, uid):
    pkg = f"auto_{uid}"
    if rng.random() < 0.03:
        pkg = f"nopkg_{uid}.autonomous"       # a dotted name whose parent package does not exist either (always 'missing')
    fault = rng.choice([None, None, None, "duplicate", "defaults", "import", "syntax", "ctor"])
    missing = rng.random() < 0.04 or "." in pkg
    nmod = rng.choice([0, 1, 2, 3, 5])
    big = rng.random() < 0.03       # a big package: five modules of four modes each
    if big:
        nmod = 5
    modules = []
    names_used = []
    stems = ["m", "m", "deploy", "jump", "happy", "stay", "drive_left", "two_ball_py", "copy", "step", "p", "y", "py_", "spy"]
    mod_names = []
    for mi in range(nmod):
        st = rng.choice(stems)
        mod_names.append(st if st not in mod_names and st != "m" else f"{st}{mi}")
    for mi in range(nmod):
        classes = []
        for ci in range(rng.choice([0, 1, 1, 2, 4]) if not big else 4):
            r = rng.random() if not big else 0.1
            c = {"cls": f"K{mi}_{ci}", "mode_name": None, "disabled": False, "default": False, "fail_ctor": False}
            if r < 0.75:
                c["mode_name"] = f"mode{mi}{ci}{uid}"
                names_used.append(c["mode_name"])
                if rng.random() < 0.12:
                    # a mode object that is falsy (a step queue that is empty before on_enable, a class with __bool__)
                    c["falsy"] = rng.choice(["len", "bool"])
                c["disabled"] = rng.random() < 0.15
                if c["disabled"] and rng.random() < 0.4:
                    c["default"] = True       # DISABLED wins: such a class is neither offered nor a default
            classes.append(c)
        modules.append({"name": mod_names[mi], "classes": classes, "broken": None, "imports_helper_from": None})
    eligible = [(m, c) for m in modules for c in m["classes"] if c["mode_name"] and not c["disabled"]]
    if eligible and rng.random() < 0.2:
        # a mode class defined in a shared library module outside the package and imported by exactly one package module
        rng.choice(eligible)[1]["external"] = True
    if eligible and rng.random() < 0.6:
        rng.choice(eligible)[1]["default"] = True
    # helper base class shared across modules (never carries MODE_NAME)
    if len(modules) >= 2 and rng.random() < 0.4:
        modules[1]["imports_helper_from"] = modules[0]["name"]
    applied = None
    if fault == "duplicate" and len(eligible) >= 2:
        a, b = rng.sample(eligible, 2)
        b[1]["mode_name"] = a[1]["mode_name"]
        applied = "duplicate"
        same_mod = [x for x in eligible if x[0] is b[0] and x[1] is not b[1] and x[1] is not a[1]]
        if same_mod and rng.random() < 0.6:
            same_mod[0][1]["mode_name"] = a[1]["mode_name"]      # a third class of that name, in the same module as the second
    elif fault == "defaults" and len(eligible) >= 2:
        for _, c in rng.sample(eligible, 2):
            c["default"] = True
        applied = "defaults"
    elif fault in ("import", "syntax") and modules:
        m = rng.choice(modules)
        if m["name"] != (modules[1]["imports_helper_from"] if len(modules) >= 2 else None):
            m["broken"] = fault
            if fault == "import" and rng.random() < 0.3:
                m["broken"] = "import-base"      # the import fails with a BaseException subclass (sys.exit() at module level)
            elif fault == "import" and rng.random() < 0.4:
                m["broken"] = "import-sibling"   # `from .helper_that_does_not_exist import X`: ModuleNotFoundError naming <pkg>.<x>
            applied = "import"
    elif fault == "ctor" and len(eligible) >= 6 and (big or rng.random() < 0.3):
        # many failing constructors at once (a whole family of modes broken by one change)
        for _m, c_ in rng.sample(eligible, 5):
            c_["fail_ctor"] = True
        applied = "ctor"
    elif fault == "ctor" and eligible:
        c_ = rng.choice(eligible)[1]
        c_["fail_ctor"] = True
        r_ = rng.random()
        if r_ < 0.3:
            c_["fail_kind"] = "base"
        elif r_ < 0.65:
            c_["fail_kind"] = "type"           # the constructor fails with a TypeError of its own
        others_ = [x[1] for x in eligible if x[1] is not c_]
        if others_ and rng.random() < 0.35:
            # a healthy class carries the same MODE_NAME as the one that cannot be constructed (a broken copy left in place)
            rng.choice(others_)["mode_name"] = c_["mode_name"]
        applied = "ctor"
    fms = rng.random() < 0.5
    sel = rng.choice(["chooser-default", "chooser-default", "chooser-sim", "auto-selector", "auto-selector-unknown"])
    if applied == "duplicate" and fms and rng.random() < 0.6:
        sel = "auto-selector"          # tolerated duplicates are mostly picked through the dashboard string
    style = rng.choice(["api", "api", "run"])
    periods = []
    for _ in range(rng.choice([1, 2, 3]) if rng.random() > 0.04 else 9):       # now and then many periods on one selector
        if style == "api":
            ops = []
            if rng.random() < 0.15 and not (periods and not any(o_[0] == "disable" for o_ in periods[-1][1:])):
                ops.append(["disable"])
            ops.append(["start"])
            for _ in range(rng.choice([0, 1, 5, 20]) if rng.random() > 0.01 else 3300):     # (rarely: more than a minute of 20 ms loops)
                ops.append(["adv", rng.choice([0, 20000, 20000, 5000, rng.randrange(0, 100000)])])
                ops.append(["periodic"])
            if rng.random() < 0.15:
                # "It is okay to not call disable() if you do not need on_disable": the next start() begins a new period
                periods.append(ops)
                continue
            ops.append(["disable"])
            if rng.random() < 0.3:
                ops.append(["disable"])
            if rng.random() < 0.3:
                ops.append(["adv", 20000])
                ops.append(["periodic"])
            periods.append(ops)
        else:
            its = rng.choice([1, 2, 5, 15]) if rng.random() > 0.05 else rng.choice([60, 120, 260])
            P_ = rng.choice([20000, 5000, 50000, 1000, 20000])
            overruns = {}
            if rng.random() < 0.35:
                # iterations whose body takes longer than the loop period (the loop then catches up with back-to-back iterations)
                for _ in range(rng.choice([1, 1, 2, 3])):
                    overruns[str(rng.randrange(0, its))] = rng.choice([P_ + 1, 2 * P_, 3 * P_ + 7, 25 * P_, P_ // 2])
            periods.append({"iterations": its, "period_us": P_, "overruns": overruns,
                            "end": rng.choice(["disabled", "teleop", "exit"]), "disable_after": rng.random() < 0.6,
                            "disable_at": rng.randrange(0, its) if rng.random() < 0.25 else None,
                            "iter_fn": rng.choice(["fn", "fn", "list", "none"]), "watchdog": rng.choice([None, None, "simple", "wpilib"])})
            if periods[-1]["iter_fn"] == "none":
                periods[-1]["disable_at"] = None
                periods[-1]["overruns"] = {}
    ctor_args = rng.choice([None, None, [[1, "x"], {}], [[], {"k": 2}], [[None], {"a": 0, "b": "s"}]])
    return {"uid": uid, "pkg": pkg, "ctor_args": ctor_args, "namespace_pkg": rng.random() < 0.12, "missing": missing, "modules": modules, "fault": applied, "fms": fms, "select": sel,
            "reselect": rng.random() < 0.5,
            "sel_seed": rng.randrange(1 << 30), "style": style, "periods": periods}


def _ident(case, m, c):
    if c.get("external"):
        return f"lib_{case['uid']}.{c['cls']}"
    return f"{case['pkg']}.{m['name']}.{c['cls']}"


def write_package(case, root):
    if case["missing"]:
        return
    pkg = os.path.join(root, case["pkg"])
    os.makedirs(pkg)
    if not case.get("namespace_pkg"):
        open(os.path.join(pkg, "__init__.py"), "w").close()       # (else an implicit namespace package: a directory of modules)
    lib_src = ["import vf.sel_rt as rt", ""]
    for m in case["modules"]:
        src = ["import vf.sel_rt as rt", ""]
        if m["imports_helper_from"]:
            src.append(f"from .{m['imports_helper_from']} import Helper")
        if m["broken"] == "import":
            src.append("raise RuntimeError('injected import failure')")
        if m["broken"] == "import-sibling":
            src.append("from .helper_that_does_not_exist import X")
        if m["broken"] == "import-base":
            src.append("raise rt.Fatal('injected import failure')")
        if m["broken"] == "syntax":
            src.append("def broken(:\n    pass")
        src.append("class Helper:\n    def on_enable(self):\n        pass\n")
        for c in m["classes"]:
            ident = _ident(case, m, c)
            base = "(Helper)" if m["imports_helper_from"] else ""
            if c.get("external"):
                # the class lives in a shared library module outside the package; this module merely imports it
                src.append(f"from lib_{case['uid']} import {c['cls']}")
                src, keep = lib_src, src
                base = ""
            src.append(f"class {c['cls']}{base}:")
            if c["mode_name"]:
                src.append(f"    MODE_NAME = {c['mode_name']!r}")
            if c["disabled"]:
                src.append("    DISABLED = True")
            if c["default"]:
                src.append("    DEFAULT = True")
            src.append(f"    def __init__(self, *a, **k):\n        self.ident = {ident!r}\n        rt.ev('ctor', {ident!r}, (a, tuple(sorted(k.items()))))")
            if c.get("falsy") == "len":
                src.append("    def __len__(self):\n        return 0")
            if c.get("falsy") == "bool":
                src.append("    def __bool__(self):\n        return False")
            for h in ("on_enable", "on_disable"):
                src.append(f"    def {h}(self):\n        rt.ev({h!r}, {ident!r})")
            src.append(f"    def on_iteration(self, tm):\n        rt.ev('on_iteration', {ident!r}, tm)")
            src.append("")
            if c.get("external"):
                src = keep
        with open(os.path.join(pkg, m["name"] + ".py"), "w") as f:
            f.write("\n".join(src) + "\n")
    if len(lib_src) > 2:
        with open(os.path.join(root, f"lib_{case['uid']}.py"), "w") as f:
            f.write("\n".join(lib_src) + "\n")


def analyse(case):
    """Expected discovery, from the statement."""
    eligible, disabled, fails = [], [], []
    faults = set()
    for m in case["modules"]:
        if case["missing"]:
            break
        if m["broken"]:
            faults.add("import")
            continue
        for c in m["classes"]:
            ident = _ident(case, m, c)
            if not c["mode_name"]:
                continue
            if c["disabled"]:
                disabled.append(ident)
                continue
            if c["fail_ctor"]:
                faults.add("ctor")
                fails.append(ident)
                eligible.append((ident, c, False))
            else:
                eligible.append((ident, c, True))
    ok = [(i, c) for i, c, good in eligible if good]
    names = [c["mode_name"] for _, c in ok]
    dups = {n for n in names if names.count(n) > 1}
    if dups:
        faults.add("duplicate")
    defaults = [c["mode_name"] for _, c in ok if c["default"]]
    if len(set(defaults)) > 1 or (len(defaults) > 1 and not dups):
        faults.add("defaults")
    healthy = {c["mode_name"]: i for i, c in ok if c["mode_name"] not in dups}
    falsy = {i for i, c, _g in eligible if c.get("falsy")}
    return {"eligible": eligible, "disabled": disabled, "faults": faults, "healthy": healthy, "dups": dups, "falsy": falsy,
            "defaults": defaults, "ctor_expected": [i for i, _, _ in eligible]}


def read_chooser():
    import ntcore
    t = ntcore.NetworkTableInstance.getDefault().getTable("/SmartDashboard/Autonomous Mode")
    out = {}
    for k in ("options", "default", "active", "selected"):
        v = t.getEntry(k).getValue()
        out[k] = v.value() if v.isValid() else None
    return out


def run_case(acc, case):
    import wpilib
    import hal.simulation as hs
    from wpilib.simulation import DriverStationSim, SendableChooserSim
    from robotpy_ext.autonomous.selector import AutonomousModeSelector
    from . import simenv
    e = simenv.env()
    acc.evaluations += 1
    case.pop("_undisabled", None)
    root = tempfile.mkdtemp(prefix="vf-sel-")
    sys.path.insert(0, root)
    if case.get("namespace_pkg") and stable_hash(case["uid"]) % 2:
        sys.path.insert(0, root)        # the directory is on sys.path twice (PYTHONPATH and the launcher both add it)
    del sel_rt.LOG[:]
    sel_rt.FAIL_CTOR.clear()
    A = analyse(case)
    sel_rt.FAIL_KIND.clear()
    for ident, c, good in A["eligible"]:
        if not good:
            sel_rt.FAIL_CTOR.add(ident)
            if c.get("fail_kind"):
                sel_rt.FAIL_KIND[ident] = c["fail_kind"]
                acc.ev("fault-is-a-BaseException" if c["fail_kind"] == "base" else "constructor-fails-with-TypeError")
    sim = None
    selector = None
    try:
        write_package(case, root)
        import importlib
        importlib.invalidate_caches()
        hs.resetGlobalHandles()
        DriverStationSim.resetData()
        DriverStationSim.setFmsAttached(case["fms"])
        DriverStationSim.setDsAttached(True)
        DriverStationSim.notifyNewData()
        wpilib.DriverStation.refreshData()
        wpilib.SmartDashboard.getEntry("Auto Selector").unpublish()
        exc = None
        if any(m["broken"] == "import-base" for m in case["modules"]) and not case["missing"]:
            acc.ev("fault-is-a-BaseException")
        try:
            ca = case.get("ctor_args") or [[], {}]
            # "args / kwargs to pass to created autonomous modes"
            selector = AutonomousModeSelector(case["pkg"], *ca[0], **ca[1])
        except BaseException as ex:  # noqa
            exc = ex
        faults = A["faults"]
        for f in faults:
            acc.ev("fault:" + f)
        if case.get("namespace_pkg") and not case["missing"]:
            acc.ev("namespace-package")
        if case["missing"]:
            acc.ev("missing-package")
            if "." in case["pkg"]:
                acc.ev("missing-dotted-package")
        acc.checks += 1
        if faults and not case["fms"]:
            if exc is None:
                acc.violation("C14/fault-not-raised", f"no FMS: package with {sorted(faults)} did not raise at start-up", case, {})
                return
            acc.ev("fault-raised-without-fms")
            return
        if exc is not None:
            acc.violation("C14/startup-raised", f"{'FMS attached, ' if case['fms'] else ''}package with faults {sorted(faults)} raised {exc!r} at start-up", case, {})
            return
        if faults:
            acc.ev("fault-tolerated-with-fms")
        else:
            acc.ev("healthy-package")
        # ---- constructor calls: exactly once per eligible class, none for others
        ctors = [x[1] for x in sel_rt.LOG if x[0] == "ctor"]
        acc.checks += 2
        ca = case.get("ctor_args") or [[], {}]
        if ca[0] or ca[1]:
            acc.ev("selector-forwards-constructor-arguments")
            want_args = (tuple(ca[0]), tuple(sorted(ca[1].items())))
            bad = [x for x in sel_rt.LOG if x[0] == "ctor" and x[2] != want_args]
            acc.checks += 1
            if bad:
                acc.violation("C14/constructor-arguments", f"mode {bad[0][1]} was constructed with {bad[0][2]!r}, the selector was given {want_args!r}", case, {})
                return
        if sorted(ctors) != sorted(A["ctor_expected"]):
            acc.violation("C14/instantiation", f"constructed {sorted(ctors)}, expected exactly once each of {sorted(A['ctor_expected'])} "
                          f"(DISABLED: {A['disabled']})", case, {})
            return
        if A["disabled"]:
            acc.ev("disabled-class-skipped")
        if any(c.get("external") for _i, c, _g in A["eligible"]):
            acc.ev("mode-class-imported-from-library-module")
        # ---- offered modes
        modes = selector.modes
        missing = [n for n in A["healthy"] if n not in modes or getattr(modes[n], "ident", None) != A["healthy"][n]]
        if missing:
            acc.violation("C14/healthy-mode-not-offered", f"healthy modes {missing} are not in selector.modes ({sorted(modes)})", case, {})
            return
        # every mode object that could be constructed is still on offer under some name (tolerated duplicates included)
        offered_idents = sorted(getattr(v, "ident", None) for v in modes.values())
        constructed = sorted(i for i, _c, good in A["eligible"] if good)
        acc.checks += 1
        if offered_idents != constructed:
            acc.violation("C14/constructed-mode-not-offered", f"constructed mode objects {constructed} but selector.modes offers {offered_idents}", case, {})
            return
        if not faults and set(modes) != set(A["healthy"]):
            acc.violation("C14/modes-set", f"selector.modes has {sorted(modes)}, expected {sorted(A['healthy'])}", case, {})
            return
        wpilib.SmartDashboard.updateValues()
        ch = read_chooser()
        acc.checks += 2
        acc.ev("chooser-options-checked")
        opts = set(ch["options"] or [])
        if not (set(A["healthy"]) | {"None"}) <= opts or (not faults and opts != set(A["healthy"]) | {"None"}):
            acc.violation("C14/chooser-options", f"chooser offers {sorted(opts)}, expected {sorted(set(A['healthy']) | {'None'})}", case, {})
            return
        dflt = A["defaults"]
        want_default = set(dflt) if dflt else {"None"}
        # with faults tolerated under the FMS only "every healthy mode is still offered" is promised
        if not faults and ch["default"] not in want_default:
            acc.violation("C14/chooser-default", f"chooser preselects {ch['default']!r}, expected {sorted(want_default)}", case, {})
            return
        # ---- selection
        rng = random.Random(case["sel_seed"])
        names = sorted(A["healthy"])
        chosen_name = ch["default"] if ch["default"] != "None" else None
        exact_pick = None
        sel = case["select"]
        if sel == "chooser-sim" and names:
            pick = rng.choice(names + ["None"])
            sim = SendableChooserSim("/SmartDashboard/Autonomous Mode/")
            sim.setSelected(pick)
            wpilib.SmartDashboard.updateValues()
            chosen_name = None if pick == "None" else pick
            acc.ev("select:chooser-sim")
        elif sel == "auto-selector" and names:
            pick = rng.choice(names)
            offered = sorted(k for k in modes if isinstance(k, str))
            if faults and offered and rng.random() < 0.6:
                # any key the selector offers names a mode - also the shared name of tolerated duplicates and whatever key
                # the other duplicate is offered under: the mode that runs is the one offered under that key
                dup_keys = [k for k in offered if getattr(modes[k], "MODE_NAME", None) in A["dups"]]
                pick = rng.choice(dup_keys if dup_keys and rng.random() < 0.8 else offered)
                exact_pick = getattr(modes[pick], "ident", None)
                acc.ev("select:auto-selector-by-any-offered-key")
            wpilib.SmartDashboard.putString("Auto Selector", pick)
            chosen_name = pick
            acc.ev("select:auto-selector")
        elif sel == "auto-selector-unknown":
            wpilib.SmartDashboard.putString("Auto Selector", rng.choice(["", "nosuchmode", "None"]))
            acc.ev("select:auto-selector-unknown")
        else:
            acc.ev("select:chooser-default")
        if chosen_name is not None and chosen_name not in A["healthy"] and exact_pick is None:
            # preselected entry of a tolerated faulty package (duplicate / several defaults): which instance runs is
            # not specified, only that exactly one mode gets the whole lifecycle
            chosen_name = "<dup>"
        chosen = A["healthy"].get(chosen_name) if chosen_name not in (None, "<dup>") else None
        if exact_pick is not None:
            chosen = exact_pick
        if chosen_name is None:
            acc.ev("select:none")
        any_chosen_period = False
        for pi, period in enumerate(case["periods"]):
            if pi and case.get("reselect") and names:
                # between periods the dashboard string stops naming a mode (or names another one): each period chooses afresh
                r = rng.random()
                if r < 0.5:
                    wpilib.SmartDashboard.putString("Auto Selector", rng.choice(["", "nosuchmode"]))
                    chosen_name = None
                    exact_pick = None
                    cur = read_chooser()
                    pick = cur.get("selected") if cur.get("selected") in names + ["None"] else cur["default"]
                    chosen_name = None if pick in (None, "None") else pick
                else:
                    pick = rng.choice(names)
                    exact_pick = None
                    if A["dups"] and rng.random() < 0.6:
                        dup_keys = [k for k in sorted(k_ for k_ in modes if isinstance(k_, str)) if getattr(modes[k], "MODE_NAME", None) in A["dups"]]
                        if dup_keys:
                            pick = rng.choice(dup_keys)
                            exact_pick = getattr(modes[pick], "ident", None)
                            acc.ev("select:auto-selector-by-any-offered-key")
                    wpilib.SmartDashboard.putString("Auto Selector", pick)
                    chosen_name = pick
                if chosen_name is not None and chosen_name not in A["healthy"] and exact_pick is None:
                    chosen_name = "<dup>"
                chosen = A["healthy"].get(chosen_name) if chosen_name not in (None, "<dup>") else None
                if r >= 0.5 and exact_pick is not None:
                    chosen = exact_pick
                acc.ev("reselected-between-periods")
            del sel_rt.LOG[:]
            if chosen is not None and chosen in A["falsy"]:
                acc.ev("falsy-mode-object-chosen")
            if case["style"] == "api":
                r = run_api_period(acc, case, selector, period, chosen, chosen_name, e)
            else:
                r = run_run_period(acc, case, selector, period, chosen, chosen_name, e)
            if r == "violation":
                return
            if r == "stop":
                break
            any_chosen_period = any_chosen_period or chosen is not None
        if len(A["healthy"]) >= 2 and any_chosen_period:
            acc.nontrivial.add(stable_hash(case))
    finally:
        case.pop("_undisabled", None)
        e.gate = None
        try:
            sys.path.remove(root)
            sys.path.remove(root)
        except ValueError:
            pass
        for k in [k for k in sys.modules if k == case["pkg"] or k.startswith(case["pkg"] + ".") or k == f"lib_{case['uid']}"]:
            del sys.modules[k]
        shutil.rmtree(root, ignore_errors=True)
        del sim, selector
        try:
            wpilib.SmartDashboard.getEntry("Auto Selector").unpublish()
            wpilib._wpilib._clearSmartDashboardData()
        except Exception:  # noqa
            pass
        gc.collect()


def check_period_log(acc, case, log, chosen, chosen_name, n_iter_expected, what, t_start=None, t_iters=None, disabled=True):
    """The automaton of the statement over one period's callback log.  Returns True if fine."""
    prev = case.get("_undisabled")
    if prev is not None and log and log[0][0] == "on_disable" and log[0][1] == prev:
        log = log[1:]          # whether start() disables a mode that never got disable() is not specified: tolerated
    acc.checks += 3
    acc.ev("other-modes-silent-checked")
    if chosen_name == "<dup>":
        # one of the duplicates was chosen: the statement does not say which instance; only the shape is checked
        idents = {x[1] for x in log}
        if len(idents) > 1:
            acc.violation("C14/several-modes-called", f"{what}: callbacks delivered to {sorted(idents)}", case, {})
            return False
        chosen = next(iter(idents)) if idents else None
    others = [x for x in log if x[1] != chosen]
    if others:
        acc.violation("C14/other-mode-called", f"{what}: chosen mode is {chosen!r} but callbacks went to {sorted({x[1] for x in others})}: {others[:4]}", case, {})
        return False
    if chosen is None:
        return True
    kinds = [x[0] for x in log]
    want = ["on_enable"] + ["on_iteration"] * n_iter_expected + (["on_disable"] if disabled else [])
    if kinds != want:
        acc.violation("C14/lifecycle", f"{what}: chosen mode received {kinds}, expected on_enable, {n_iter_expected} x on_iteration, on_disable", case, {})
        return False
    ts = [x[2] for x in log if x[0] == "on_iteration"]
    acc.ev("iteration-checked", len(ts))
    if any(not isinstance(t, float) or t < 0 for t in ts) or any(b < a for a, b in zip(ts, ts[1:])):
        acc.violation("C14/elapsed-time", f"{what}: on_iteration elapsed times {ts[:8]} are not non-decreasing", case, {})
        return False
    if t_start is not None and t_iters is not None and len(t_iters) == len(ts):
        # "elapsed time": time since this period was started, on the FPGA clock
        for t, at in zip(ts, t_iters):
            if abs(t - (at - t_start) / 1e6) > 1e-6:
                acc.violation("C14/elapsed-time", f"{what}: on_iteration got elapsed time {t!r} at {(at - t_start) / 1e6!r} s after the period started", case, {})
                return False
        acc.ev("elapsed-time-checked", len(ts))
    return True


def run_api_period(acc, case, selector, ops, chosen, chosen_name, e):
    started = False
    n_iter = 0
    mark = 0
    ended = False
    t_start = None
    t_iters = []
    for op in ops:
        k = op[0]
        try:
            if k == "adv":
                e.advance(op[1])
            elif k == "start":
                t_start = e.now()
                selector.start()
                started = True
                mark = 0
            elif k == "periodic":
                n0 = len(sel_rt.LOG)
                selector.periodic()
                if ended or not started:
                    acc.checks += 1
                    acc.ev("after-disable-silent")
                    if len(sel_rt.LOG) != n0:
                        acc.violation("C14/callback-after-disable", f"periodic() after disable() delivered {sel_rt.LOG[n0:]}", case, {})
                        return "violation"
                else:
                    n_iter += 1
                    t_iters.append(e.now())
            elif k == "disable":
                n0 = len(sel_rt.LOG)
                selector.disable()
                if ended or not started:
                    acc.checks += 1
                    acc.ev("after-disable-silent")
                    if len(sel_rt.LOG) != n0:
                        acc.violation("C14/callback-after-disable", f"disable() without an active period delivered {sel_rt.LOG[n0:]}", case, {})
                        return "violation"
                elif started:
                    ended = True
        except Exception as ex:  # noqa
            acc.violation("C14/api-raised", f"{k}() raised {ex!r}", case, {})
            return "violation"
    acc.ev("period-api")
    was_disabled = ended
    if not was_disabled:
        acc.ev("period-without-disable")
    if not check_period_log(acc, case, list(sel_rt.LOG), chosen, chosen_name, n_iter, "start/periodic/disable period", t_start, t_iters,
                            disabled=was_disabled):
        return "violation"
    # (taken from the harness's own log, not from the selector's attributes: how it keeps its state is its own business)
    case["_undisabled"] = None if was_disabled else next((x[1] for x in sel_rt.LOG if x[0] == "on_enable"), None)
    return "ok"


_SHARED = {}


def _end_thread(acc, th, selector, gate, e, P):
    """Make a robot thread that outlived its period leave run(): the selector is told that the robot exits, the gate is
    opened and the clock moved on until the thread is gone."""
    acc.ev("robot-thread-had-to-be-ended-by-the-harness")
    try:
        selector.endCompetition()
    except Exception:  # noqa
        pass
    for _ in range(400):
        gate.release()
        e.advance(P)
        th.join(0.05)
        if not th.is_alive():
            return True
    acc.ev("robot-thread-still-alive(observation)")
    return False


def run_run_period(acc, case, selector, period, chosen, chosen_name, e):
    from . import simenv
    gate = simenv.Gate()
    e.gate = gate
    box = {}
    iters = []
    P = period["period_us"]
    simenv.set_ds(True, True, False, fms=case["fms"])

    disable_at = period.get("disable_at")
    marks = {}

    overruns = period.get("overruns") or {}
    th_box = {}

    def iter_fn():
        if threading.current_thread() is not th_box.get("th"):
            return            # (a thread of an earlier period that is still on its way out: not this period's loop)
        iters.append(e.now())
        slow = overruns.get(str(len(iters) - 1))
        if slow:
            # this iteration's body takes that long: the clock is moved by the harness thread while this one is parked (a
            # clock step made from inside the robot thread can lose the notifier wake-up of its own next wait() in the simulator)
            gate.park(("body", slow))
            acc.ev("run-iteration-overran-the-loop-period" if slow > P else "run-iteration-with-a-slow-body")
        if disable_at is not None and len(iters) - 1 == disable_at:
            # disable() arrives in the middle of the period (e.g. called from the robot's own code)
            selector.disable()
            marks["log_len"] = len(sel_rt.LOG)

    kw = {}
    how = period.get("iter_fn", "fn")
    if how == "fn":
        kw["iter_fn"] = iter_fn
    elif how == "list":
        # the documented "function or list of functions"; a robot keeps ONE list object and passes it for every period
        if _SHARED.get("uid") != case["uid"]:
            _SHARED.update({"uid": case["uid"], "list": [lambda: _SHARED["fn"](), lambda: None]})
        _SHARED["fn"] = iter_fn
        kw["iter_fn"] = _SHARED["list"]
    if period.get("watchdog") == "simple":
        from robotpy_ext.misc.simple_watchdog import SimpleWatchdog
        kw["watchdog"] = SimpleWatchdog(P / 1e6)
    elif period.get("watchdog") == "wpilib":
        # (was wpilib.Watchdog until the final sweep: that class keeps ONE notifier of its own for the whole process; with
        #  the HAL handle table reset between cases a later NotifierDelay could receive the same handle number and the two
        #  waiters stole each other's wake-ups, and without the reset the process crashed natively.  DESIGN.md 10.2 item 11.
        #  The watchdog is an optional collaborator of run(), not part of the statement: the pure-Python one stands in.)
        #  It is wrapped so that run() takes its "any other watchdog" branch (isExpired() / printEpochs()).
        from robotpy_ext.misc.simple_watchdog import SimpleWatchdog

        class _OtherWatchdog:
            def __init__(self, inner):
                self._inner = inner

            def printEpochs(self):          # (wpilib.Watchdog's name for it)
                self._inner.printIfExpired()

            def __getattr__(self, name):
                return getattr(self._inner, name)
        kw["watchdog"] = _OtherWatchdog(SimpleWatchdog(2 * P / 1e6))
    if kw.get("watchdog") is not None:
        acc.ev("run-with-watchdog")
    if how != "fn":
        acc.ev("run-iter_fn:" + how)

    def target():
        try:
            selector.run(P / 1e6, **kw)
        except BaseException as ex:  # noqa
            box["exc"] = ex
        finally:
            gate.thread_ended()
    th = threading.Thread(target=target, daemon=True)
    th_box["th"] = th
    e.robot_thread = th
    th.start()
    left = period["iterations"]
    n_seen = 0
    result = "ok"
    while True:
        st = gate.wait_parked(20)
        if st == "timeout":
            acc.ev("case-inconclusive")
            _end_thread(acc, th, selector, gate, e, P)
            return "stop"
        if st == "ended":
            break
        if isinstance(gate.current_delay, tuple):
            e.advance(gate.current_delay[1])          # a slow iteration body
            gate.release()
            continue
        n_seen += 1
        left -= 1
        if left <= 0:
            if period["end"] == "disabled":
                simenv.set_ds(False, True, False, fms=case["fms"])
            elif period["end"] == "teleop":
                simenv.set_ds(True, False, False, fms=case["fms"])
            else:
                selector.endCompetition()
        al = e.alarm_of(gate.current_delay)
        if al is not None:
            e.step_to(al)
        gate.release()
    th.join(5)
    if th.is_alive():
        # (heavily loaded machine) the robot thread has not left run() yet.  It must not live on into later periods and
        # cases: there it would run free - not gated any more - and call whatever iter_fn / mode is current then
        _end_thread(acc, th, selector, gate, e, P)
        e.gate = None
        acc.ev("case-inconclusive")
        return "stop"
    e.gate = None
    acc.ev("period-run")
    if P == 1000:
        acc.ev("run-period-of-1ms")
    if n_seen >= 100:
        acc.ev("run-period-of-100-or-more-iterations")
    if "exc" in box:
        acc.violation("C14/run-raised", f"run() raised {box['exc']!r}", case, {})
        return "violation"
    if how != "none" and len(iters) != n_seen:
        acc.violation("C14/iter_fn-count", f"run(): iter_fn ran {len(iters)} times in {n_seen} loop iterations", case, {})
        return "violation"
    if "log_len" in marks:
        # after disable() in mid-period nothing more is delivered, also not a second on_disable when the period ends
        acc.checks += 1
        acc.ev("disable-mid-run")
        late = sel_rt.LOG[marks["log_len"]:]
        if late:
            acc.violation("C14/callback-after-disable", f"run(): disable() was called in iteration {disable_at}; afterwards the mode still received {late[:5]}", case, {})
            return "violation"
        n_expected = disable_at + 1
    else:
        n_expected = n_seen
    if not check_period_log(acc, case, list(sel_rt.LOG), chosen, chosen_name, n_expected, f"run() period ending by {period['end']}"):
        return "violation"
    ts = [x[2] for x in sel_rt.LOG if x[0] == "on_iteration"]
    if how != "none" and ts and len(iters) >= len(ts):
        # "elapsed time": between any two iterations t grows by exactly what the FPGA clock grew (iter_fn runs right after
        # on_iteration in the same loop pass and reads the clock before its own body takes any time)
        acc.checks += len(ts)
        for k, t in enumerate(ts):
            if abs((t - ts[0]) - (iters[k] - iters[0]) / 1e6) > 1e-6:
                acc.violation("C14/elapsed-time", f"run(): iteration {k} got elapsed time {t!r}, {t - ts[0]!r} s after the first one, but the clock had moved "
                                                  f"{(iters[k] - iters[0]) / 1e6!r} s since then", case, {})
                return "violation"
        acc.ev("run-elapsed-time-checked", len(ts))
    if period.get("disable_after", True):
        # the documented disabledInit() hook: disable() after the period has already ended delivers nothing
        n0 = len(sel_rt.LOG)
        try:
            selector.disable()
        except Exception as ex:  # noqa
            acc.violation("C14/api-raised", f"disable() after run() raised {ex!r}", case, {})
            return "violation"
        acc.checks += 1
        acc.ev("after-disable-silent")
        acc.ev("disable-after-run-silent")
        if len(sel_rt.LOG) != n0:
            acc.violation("C14/callback-after-disable", f"disable() after a finished run() period delivered {sel_rt.LOG[n0:]}", case, {})
            return "violation"
    if period["end"] == "exit":
        return "stop"
    return "ok"


def run_shard(spec):
    from . import simenv
    simenv.env()
    rng = random.Random(spec["seed"])
    acc = Acc()
    for i in range(spec["n"]):
        case = gen_case(rng, f"{spec['seed'] % 46656:x}x{i:x}")
        case["hist"] = [spec["seed"], i]
        run_case(acc, case)
        if i < 2:
            acc.samples.append({"modules": [{"name": m["name"], "broken": m["broken"],
                                             "classes": [{k: v for k, v in c.items() if v} for c in m["classes"]]} for m in case["modules"]],
                                "fault": case["fault"], "fms": case["fms"], "select": case["select"], "style": case["style"],
                                "periods": case["periods"][:1]})
    return acc.result()


def replay(pid, case):
    from . import simenv
    simenv.env()
    acc = Acc()
    run_case(acc, case)
    if acc.violations or "hist" not in case:
        return acc.violations[0] if acc.violations else None
    # not reproducible alone: repeat it behind the cases that preceded it in its shard (process-wide state in the library)
    seed, idx = case["hist"]
    rng = random.Random(seed)
    scratch = Acc()
    for i in range(idx):
        run_case(scratch, gen_case(rng, f"{seed % 46656:x}x{i:x}"))
    acc = Acc()
    run_case(acc, case)
    if acc.violations:
        v = acc.violations[0]
        v["detail"] = dict(v.get("detail") or {}, needs_history=f"only behind the {idx} cases generated before it from shard seed {seed}")
        return v
    return None
