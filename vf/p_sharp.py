"""C17 - Sharp IR distance drivers: bounded, monotone, datasheet power law, sim helper is the inverse."""
from __future__ import annotations

import math
import random
import struct

from .common import Acc, stable_hash

PROPERTIES = {"C17": "Sharp IR drivers"}
RULE = {"C17": "per sensor model: all 4096 ADC codes (v = code*5/4096) through AnalogInputSim.setVoltage -> getDistance(); "
               "special doubles (+-0, negatives, denormals, 1e+-300, +-inf); random doubles drawn by bit pattern (NaN "
               "excluded as in the quantifier); monotonicity over the sorted sample; sim helper round trips for distances "
               "inside/outside the range. Non-trivial = voltage > 0 whose power-law value lies strictly inside the range "
               "(the law, not the clamp, decides) or a sim distance inside the range; distinct = distinct (model, input)."}
RULE["C17"] += '  Readings at or below 0 V must be the far end of the range (monotonicity); sub-LSB voltage steps; replays feed the recent input history first.'
REQUIRED = {"C17": {"same-voltage-read-hundreds-of-times": 2000, "analog-input-oversampling-on": 50, "five-volt-rail-off-nominal": 100, "first-reading-of-a-new-driver-object": 60, "driver-built-through-its-older-name": 5, "near-pair": 300, "adc-code": 3 * 4096, "special-double": 60, "random-double": 3000, "in-range-law-checked": 3000,
                    "clamped-low": 100, "clamped-high": 100, "monotone-pair": 10000, "sim-roundtrip": 600,
                    "sim-outside-range": 100, "sim-fresh-helper": 50, "sim-raw-write-between": 50}}
ASSUMPTIONS = {"C17": ["AnalogInputSim.setVoltage passes any double unchanged to AnalogInput.getVoltage (probed: yes, incl. inf and negatives)"]}

MODELS = {
    "SharpIR2Y0A02": (62.28, -1.092, 22.5, 145.0),
    "SharpIR2Y0A21": (26.449, -1.226, 10.0, 80.0),
    "SharpIR2Y0A41": (12.84, -0.9824, 4.5, 35.0),
}
SPECIALS = [0.0, -0.0, -1.0, -5.0, -1e-300, 5e-324, 1e-323, 2.2250738585072014e-308, 1e-300, 1e-30, 1e-10, 9.99e-6,
            1e-5, 1.0000001e-5, 1e-4, 0.05, 0.4, 0.5, 1.0, 2.5, 3.3, 4.999, 5.0, 5.5, 12.0, 1e3, 1e30, 1e300,
            1.7976931348623157e308, float("inf"), float("-inf")]


def shards(pid, tier, seed):
    if tier == "quick":
        return [{"mode": "codes"}, {"mode": "random", "n": 6000}, {"mode": "sim", "n": 1500}]
    return ([{"mode": "codes"}] + [{"mode": "random", "n": 900000} for _ in range(10)]
            + [{"mode": "sim", "n": 400000} for _ in range(5)])


_SENSORS = {}
_RECENT = {}     # model -> recent inputs on that driver object (a replay must re-create history-dependent state)
HIST = 48


def sensors():
    if not _SENSORS:
        from robotpy_ext.common_drivers import distance_sensors as ds
        from robotpy_ext.common_drivers import distance_sensors_sim as dss
        from wpilib.simulation import AnalogInputSim
        for port, name in enumerate(MODELS):
            s = getattr(ds, name)(port)
            _SENSORS[name] = (s, AnalogInputSim(s.distance), getattr(dss, name + "Sim")(s))
    return _SENSORS


_PORT = [3, 0]        # [port used last, number of new driver objects made so far in this process]


def check_fresh(acc, name, v, via_alias=False):
    """The very first reading of a brand-new driver object (and, for sim round trips, a brand-new helper on it)."""
    import gc
    from robotpy_ext.common_drivers import distance_sensors as ds
    from robotpy_ext.common_drivers import distance_sensors_sim as dss
    from wpilib.simulation import AnalogInputSim
    c, e, lo, hi = MODELS[name]
    cls = getattr(ds, "SharpIRGP2Y0A41SK0F" if via_alias else name)      # the older name of the 2Y0A41 driver is an alias
    case = {"mode": "fresh", "model": name, "v_bits": struct.pack(">d", v).hex(), "via_alias": via_alias, "n_prior_fresh": _PORT[1]}
    _PORT[1] += 1
    acc.evaluations += 1
    acc.ev("first-reading-of-a-new-driver-object")
    if via_alias:
        acc.ev("driver-built-through-its-older-name")
    s = sim = helper = s2 = helper2 = peek = None
    try:
        _PORT[0] = 3 + (_PORT[0] - 2) % 5          # ports 3..7 in turn: a new object rarely sits where the last one sat
        s = cls(_PORT[0])
        sim = AnalogInputSim(s.distance)
        sim.setVoltage(v)
        d = s.getDistance()
        acc.checks += 1
        if not isinstance(d, float) or not math.isfinite(d) or not (lo <= d <= hi):
            acc.violation("C17/out-of-range", f"{name} (new object): voltage {v!r} -> distance {d!r} outside [{lo}, {hi}]", case, {"d": repr(d)})
            return
        if v > 0 and math.isfinite(v):
            law = c * math.pow(v, e) if v > 1e-200 else math.inf
            want = min(max(law, lo), hi)
            if abs(d - want) > 1e-9 * want:
                acc.violation("C17/power-law", f"{name} (new object): voltage {v!r} -> {d!r}, expected {want!r}", case, {})
                return
        elif v <= 0 and d != hi:
            acc.violation("C17/not-monotone", f"{name} (new object): voltage {v!r} reads {d!r}, the far end is {hi}", case, {})
            return
        # a helper attached to the new object
        helper = getattr(dss, name + "Sim")(s)
        x = (lo + hi) / 3
        helper.setDistance(x)
        acc.checks += 1
        if helper.getDistance() != x or abs(s.getDistance() - x) > 1e-9 * x:
            acc.violation("C17/sim-inverse", f"{name} (new object): after setDistance({x!r}) helper says {helper.getDistance()!r}, sensor {s.getDistance()!r}", case, {})
            return
        # a second sensor of the same model on another port, with a helper of its own: each helper remembers its own distance
        s2 = cls(3 + (_PORT[0] - 2) % 5)
        helper2 = getattr(dss, name + "Sim")(s2)
        y = (lo + hi) / 2
        helper.setDistance(x)
        helper2.setDistance(y)
        acc.checks += 2
        acc.ev("two-sensors-of-one-model-with-a-helper-each")
        got = (helper.getDistance(), s.getDistance(), helper2.getDistance(), s2.getDistance())
        if got[0] != x or abs(got[1] - x) > 1e-9 * x or got[2] != y or abs(got[3] - y) > 1e-9 * y:
            acc.violation("C17/sim-inverse", f"{name}: two sensors with a helper each, set to {x!r} and {y!r}: helpers say {got[0]!r} / {got[2]!r}, sensors read {got[1]!r} / {got[3]!r}", case, {})
            return
        del helper2, s2
        # a helper that is used once and dropped (a fixture that returns only the sensor), and one made just to look
        z = lo + (hi - lo) * 0.6
        getattr(dss, name + "Sim")(s).setDistance(z)
        gc.collect()
        peek = getattr(dss, name + "Sim")(s)
        del peek
        gc.collect()
        acc.checks += 1
        acc.ev("helper-dropped-while-the-sensor-is-in-use")
        if abs(s.getDistance() - z) > 1e-9 * z:
            acc.violation("C17/sim-inverse", f"{name}: a helper set {z!r} and was dropped; the sensor now reads {s.getDistance()!r}", case, {})
    except Exception as ex:  # noqa
        acc.violation("C17/raised", f"{name} (new object{', built through its older name' if via_alias else ''}): voltage {v!r}: {ex!r}", case, {"v": repr(v)})
    finally:
        s = sim = helper = s2 = helper2 = peek = None
        gc.collect()


def check_voltage(acc, name, v, kind, rail=None, oversample=None):
    """One reading; returns the distance (or None).  rail: the roboRIO's 5 V rail during the reading, if not nominal.
    oversample: AnalogInput oversample / average bits set on the sensor's input for this reading (a user setting)."""
    if oversample:
        ai = sensors()[name][0].distance
        ai.setOversampleBits(oversample)
        ai.setAverageBits(oversample)
        _RECENT["oversample"] = oversample
        try:
            return check_voltage(acc, name, v, kind, rail=rail)
        finally:
            _RECENT.pop("oversample", None)
            ai.setOversampleBits(0)
            ai.setAverageBits(0)
    if rail is not None:
        from wpilib.simulation import RoboRioSim
        RoboRioSim.setUserVoltage5V(rail)
        try:
            return _check_voltage(acc, name, v, kind, rail)
        finally:
            RoboRioSim.setUserVoltage5V(5.0)
    return _check_voltage(acc, name, v, kind, None)


def _check_voltage(acc, name, v, kind, rail):
    c, e, lo, hi = MODELS[name]
    s, sim, _ = sensors()[name]
    sim.setVoltage(v)
    hist = _RECENT.setdefault("all", [])
    case = {"mode": "voltage", "model": name, "v_bits": struct.pack(">d", v).hex(), "history": list(hist), "rail": rail, "oversample": _RECENT.get("oversample")}
    hist.append(["v", struct.pack(">d", v).hex(), name])
    del hist[:-HIST]
    acc.evaluations += 1
    acc.ev(kind)
    try:
        d = s.getDistance()
    except Exception as ex:  # noqa
        acc.violation("C17/raised", f"{name}.getDistance() raised {ex!r} for voltage {v!r}", case, {"v": repr(v)})
        return None
    acc.checks += 2
    if not isinstance(d, float) or not math.isfinite(d) or not (lo <= d <= hi):
        acc.violation("C17/out-of-range", f"{name}: voltage {v!r} -> distance {d!r} outside [{lo}, {hi}]", case, {"d": repr(d)})
        return None
    if v > 0 and math.isfinite(v):
        try:
            law = c * math.pow(v, e)
        except OverflowError:
            law = math.inf
        if lo < law < hi:
            acc.ev("in-range-law-checked")
            acc.nontrivial.add(stable_hash([name, case["v_bits"]]))
            if abs(d - law) > 1e-9 * law:
                acc.violation("C17/power-law", f"{name}: voltage {v!r} -> {d!r}, datasheet law gives {law!r}", case,
                              {"d": repr(d), "law": repr(law)})
        elif law >= hi:
            acc.ev("clamped-high")
            if d != hi:
                acc.violation("C17/clamp", f"{name}: voltage {v!r} (law {law!r}) should read the maximum {hi}, got {d!r}", case, {})
        else:
            acc.ev("clamped-low")
            if d != lo:
                acc.violation("C17/clamp", f"{name}: voltage {v!r} (law {law!r}) should read the minimum {lo}, got {d!r}", case, {})
    elif v <= 0:
        # never increasing in the voltage + inside the range: at or below 0 V the reading cannot be below the one at the
        # smallest positive voltages, which is the far end of the range
        acc.ev("non-positive-voltage-reads-far-end")
        if d != hi:
            acc.violation("C17/not-monotone", f"{name}: voltage {v!r} reads {d!r}, but every small positive voltage reads {hi} "
                          f"(the reading must not increase with the voltage)", case, {"d": repr(d)})
    return d


def check_repeat(acc, name, v, count):
    c, e, lo, hi = MODELS[name]
    s, sim, _h = sensors()[name]
    sim.setVoltage(v)
    want = min(max(c * math.pow(v, e), lo), hi)
    acc.evaluations += 1
    for k in range(count):
        d = s.getDistance()
        acc.checks += 1
        if not isinstance(d, float) or abs(d - want) > 1e-9 * want:
            acc.violation("C17/power-law", f"{name}: reading #{k + 1} of the unchanged voltage {v!r} is {d!r}, expected {want!r}",
                          {"mode": "repeat", "model": name, "v_bits": struct.pack(">d", v).hex(), "count": k + 1}, {})
            return
    acc.ev("same-voltage-read-hundreds-of-times", count)


def check_monotone(acc, name, pairs):
    """pairs: list of (v, d) - reading must never increase as the voltage increases."""
    pairs = sorted((p for p in pairs if p[1] is not None), key=lambda p: p[0])
    for (v1, d1), (v2, d2) in zip(pairs, pairs[1:]):
        acc.checks += 1
        acc.ev("monotone-pair")
        if v2 > v1 and d2 > d1:
            acc.violation("C17/not-monotone", f"{name}: reading increases with voltage: {v1!r}->{d1!r}, {v2!r}->{d2!r}",
                          {"mode": "pair", "model": name, "v1": struct.pack(">d", v1).hex(), "v2": struct.pack(">d", v2).hex(),
                           "history": list(_RECENT.get("all", ()))}, {})
            return


def check_sim(acc, name, x, fresh_helper=False, raw_between=None):
    c, e, lo, hi = MODELS[name]
    s, rawsim, helper = sensors()[name]
    if fresh_helper:
        # a helper object created just now (its remembered distance is its initial one)
        from robotpy_ext.common_drivers import distance_sensors_sim as dss
        helper = getattr(dss, name + "Sim")(s)
        acc.ev("sim-fresh-helper")
    if raw_between is not None:
        # something else moved the analog input since the helper's last call (a second helper, a raw sim write)
        rawsim.setVoltage(raw_between)
        acc.ev("sim-raw-write-between")
    hist = _RECENT.setdefault("all", [])
    nset = _RECENT.setdefault("nset", {})
    case = {"mode": "sim", "model": name, "x_bits": struct.pack(">d", float(x)).hex(), "is_int": isinstance(x, int), "history": list(hist),
            "n_prior_sets": nset.get(name, 0),
            "fresh_helper": fresh_helper, "raw_between": raw_between}
    hist.append(["d", struct.pack(">d", float(x)).hex(), name])
    del hist[:-HIST]
    acc.evaluations += 1
    acc.ev("sim-roundtrip")
    nset[name] = nset.get(name, 0) + 1
    try:
        helper.setDistance(x)
        back = helper.getDistance()
        d = s.getDistance()
    except Exception as ex:  # noqa
        acc.violation("C17/sim-raised", f"{name}Sim: setDistance({x!r}) / getDistance raised {ex!r}", case, {})
        return
    acc.checks += 2
    if back != x:
        acc.violation("C17/sim-getDistance", f"{name}Sim: getDistance() returned {back!r} after setDistance({x!r})", case, {})
    want = min(max(x, lo), hi)
    if lo < x < hi:
        acc.nontrivial.add(stable_hash([name, "sim", case["x_bits"]]))
    else:
        acc.ev("sim-outside-range")
    if not (isinstance(d, float) and abs(d - want) <= 1e-9 * want):
        acc.violation("C17/sim-inverse", f"{name}: after setDistance({x!r}) the sensor reads {d!r}, expected {want!r}", case, {})


def rand_double(rng):
    while True:
        r = rng.random()
        if r < 0.5:
            v = struct.unpack(">d", rng.getrandbits(64).to_bytes(8, "big"))[0]
        elif r < 0.8:
            v = rng.uniform(0, 5.0)
        elif r < 0.9:
            v = 10 ** rng.uniform(-6, 1.2)
        else:
            v = rng.uniform(-1, 6)
        if not math.isnan(v):
            return v


def run_shard(spec):
    rng = random.Random(spec["seed"])
    acc = Acc()
    mode = spec["mode"]
    if mode == "codes":
        for name in MODELS:
            pairs = []
            for code in range(4096):
                v = code * 5.0 / 4096
                pairs.append((v, check_voltage(acc, name, v, "adc-code")))
            for v in SPECIALS:
                pairs.append((v, check_voltage(acc, name, v, "special-double")))
            check_monotone(acc, name, pairs)
            for v in SPECIALS + [0.4, 1.0, 2.5, 6.0]:
                check_fresh(acc, name, v, via_alias=(name == "SharpIR2Y0A41" and len(str(v)) % 2 == 0))
            acc.samples.append({"model": name, "code": 1000, "v": 1000 * 5 / 4096,
                                "distance": sensors()[name][0].getDistance() if sensors()[name][1].setVoltage(1000 * 5 / 4096) is None else None})
        acc.extra["exhaustive"] = True
        acc.extra["exhaustive_space"] = "4096 ADC codes x 3 sensor models"
    elif mode == "random":
        for name in MODELS:
            pairs = []
            for _ in range(spec["n"] // 3):
                v = rand_double(rng)
                rail = None
                if rng.random() < 0.1:
                    # the roboRIO's 5 V rail is not at its nominal value (brown-out, heavy load): the sensor's output voltage is
                    # what it is, the reading must not depend on the rail
                    rail = rng.choice([4.5, 4.75, 4.9, 5.1, 0.0])
                    acc.ev("five-volt-rail-off-nominal")
                ov = rng.choice([1, 2, 4]) if rng.random() < 0.05 else None
                if ov:
                    acc.ev("analog-input-oversampling-on")
                pairs.append((v, check_voltage(acc, name, v, "random-double", rail=rail, oversample=ov)))
                if rng.random() < 0.3 and 0 < v < 6:
                    # consecutive readings a hair apart on the same driver object (sub-LSB steps never occur in a code sweep)
                    v2 = v + rng.choice([1e-6, 1e-5, 1e-4, 5e-4, 9e-4, -1e-4, -5e-4])
                    pairs.append((v2, check_voltage(acc, name, v2, "near-pair")))
            check_monotone(acc, name, pairs)
            # a stationary target: the very same voltage read many hundreds of times in a row
            v0 = {"SharpIR2Y0A02": 1.1, "SharpIR2Y0A21": 0.9, "SharpIR2Y0A41": 0.7}[name]
            check_repeat(acc, name, v0, 700)
        acc.samples.append({"model": "SharpIR2Y0A21", "random_voltages_head": [repr(p[0]) for p in pairs[:5]]})
    else:
        for name, (c, e, lo, hi) in MODELS.items():
            xs = [lo, hi, lo - 1, hi + 1, 0, -3.5, 1e9, float("inf"), float("-inf"), int(lo) + 1, int(hi) - 1,
                  math.nextafter(lo, 0), math.nextafter(hi, 1e9)]
            for _ in range(spec["n"] // 3):
                r = rng.random()
                xs.append(rng.uniform(lo, hi) if r < 0.7 else rng.uniform(-10, 2 * hi) if r < 0.9 else rng.randrange(0, int(2 * hi)))
            for x in xs:
                check_sim(acc, name, x)
                r = rng.random()
                if r < 0.3 and lo < x < hi and isinstance(x, float):
                    check_sim(acc, name, x + rng.choice([1e-4, 5e-3, -5e-3, 1e-2]))
                elif r < 0.45:
                    # the same distance again after the input was moved behind the helper's back
                    check_sim(acc, name, x, raw_between=rng.uniform(0.1, 3.0))
                elif r < 0.55:
                    check_sim(acc, name, rng.choice([0, 0.0, x]), fresh_helper=True)
        acc.samples.append({"mode": "sim", "model": name, "distances_head": [repr(x) for x in xs[13:18]]})
    return acc.result()


def _feed_history(case):
    """Re-create driver-object state: replay the inputs that preceded the case on the same object."""
    for item in case.get("history", ()):
        kind, bits = item[0], item[1]
        model = item[2] if len(item) > 2 else case["model"]
        x = struct.unpack(">d", bytes.fromhex(bits))[0]
        s, sim, helper = sensors()[model]
        try:
            if kind == "v":
                sim.setVoltage(x)
            else:
                helper.setDistance(x)
            s.getDistance()
        except Exception:  # noqa
            pass


def _replay_once(case, cross_model_first):
    acc = Acc()
    _RECENT.clear()
    if cross_model_first and "v_bits" in case:
        # the other two drivers read the very same voltage first (all three share one process on a robot)
        v = struct.unpack(">d", bytes.fromhex(case["v_bits"]))[0]
        for other in MODELS:
            if other != case["model"]:
                s, sim, _ = sensors()[other]
                sim.setVoltage(v)
                try:
                    s.getDistance()
                except Exception:  # noqa
                    pass
    if case.get("mode") == "sim" and not case.get("fresh_helper"):
        # the helper object had already been used that often (state that only changes after hundreds of calls)
        helper = sensors()[case["model"]][2]
        for k in range(max(0, case.get("n_prior_sets", 0) - sum(1 for h in case.get("history", ()) if h[0] == "d" and h[2] == case["model"]))):
            try:
                helper.setDistance(20.0 + (k % 7))
            except Exception:  # noqa
                pass
    _feed_history(case)
    _RECENT.clear()
    if case["mode"] == "fresh" and case.get("n_prior_fresh"):
        # that many driver objects had been made (and released) before: addresses get recycled
        v = struct.unpack(">d", bytes.fromhex(case["v_bits"]))[0]
        for k in range(case["n_prior_fresh"]):
            check_fresh(Acc(), list(MODELS)[k % 3], 0.4 + (k % 5) * 0.3, False)
    if case["mode"] == "repeat":
        v = struct.unpack(">d", bytes.fromhex(case["v_bits"]))[0]
        check_repeat(acc, case["model"], v, case["count"])
    elif case["mode"] == "fresh":
        v = struct.unpack(">d", bytes.fromhex(case["v_bits"]))[0]
        check_fresh(acc, case["model"], v, case.get("via_alias", False))
    elif case["mode"] == "voltage":
        v = struct.unpack(">d", bytes.fromhex(case["v_bits"]))[0]
        check_voltage(acc, case["model"], v, "replay", rail=case.get("rail"), oversample=case.get("oversample"))
    elif case["mode"] == "pair":
        v1 = struct.unpack(">d", bytes.fromhex(case["v1"]))[0]
        v2 = struct.unpack(">d", bytes.fromhex(case["v2"]))[0]
        ps = [(v, check_voltage(acc, case["model"], v, "replay")) for v in (v1, v2)]
        check_monotone(acc, case["model"], ps)
    else:
        x = struct.unpack(">d", bytes.fromhex(case["x_bits"]))[0]
        if case.get("is_int"):
            x = int(x)
        check_sim(acc, case["model"], x, fresh_helper=case.get("fresh_helper", False), raw_between=case.get("raw_between"))
    return acc.violations[0] if acc.violations else None


def replay(pid, case):
    # first with the other two sensor models reading the same voltage beforehand (state shared between the driver
    # classes lives longer than the recorded history window), then the recorded history alone
    return _replay_once(case, True) or _replay_once(case, False)
