"""C20 - crc7() versus an independent bit-serial CRC-7 (reflected polynomial 0x91)."""
from __future__ import annotations

import os
import random

from .common import Acc, stable_hash

PROPERTIES = {"C20": "crc7 == bit-serial CRC, linearity, error detection"}
RULE = {
    "C20": "modes: 'pairs' enumerates all 65 536 two-byte messages (every (running checksum, byte) transition of the "
           "fold); 'fold' observes the running checksum after every byte of sampled calls with sys.monitoring LINE "
           "events on crc7 and compares it with the reference after each step; 'random' draws messages of length "
           "0..4096 as bytes/bytearray/list/tuple/memoryview; 'linear' random equal-length pairs; 'detect' every "
           "single-bit, two-bit (<127 apart) and burst<=7 error pattern on messages of each length 1..Lmax. "
           "A case is non-trivial when the message has >=2 bytes and is not all zero; distinct = distinct message hash "
           "(+ error pattern for 'detect')."
}
RULE["C20"] += "  'inplace': one bytearray / list / memoryview object changed in place and checksummed again, data iterators that call crc7() themselves; value cases are replayed behind the two preceding messages."
REQUIRED = {"C20": {"message-longer-than-4096-bytes": 30, "interpreter-with-optimisation-flag": 1, "long-zero-run-behind-a-prefix": 300, "shorter-message-after-longer-one": 500, "same-memoryview-object-rechecked": 200, "pair-transition": 65536, "random-message": 500, "same-object-rechecked": 1000, "nested-call": 200,
                    "linearity-pair": 200, "single-bit": 500, "double-bit": 5000, "burst": 2000}}
ASSUMPTIONS = {"C20": ["reference CRC is a 12-line bit-serial shift register written from the statement, "
                       "checked in setup self-test against the navX protocol example vectors"]}


def ref_crc7(data) -> int:
    """Bit-serial CRC, reflected polynomial 0x91, LSB first, zero init."""
    crc = 0
    for byte in data:
        crc ^= byte
        for _ in range(8):
            if crc & 1:
                crc ^= 0x91
            crc >>= 1
    return crc


def shards(pid, tier, seed):
    if tier == "quick":
        return [{"mode": "pairs"}, {"mode": "pyopt", "n": 200}, {"mode": "fold", "n": 300},
                {"mode": "random", "n": 4000}, {"mode": "linear", "n": 2000}, {"mode": "inplace", "n": 1500},
                {"mode": "detect", "lens": list(range(1, 13)), "rand": 300}]
    out = [{"mode": "pairs"}, {"mode": "pyopt", "n": 5000}, {"mode": "fold", "n": 3000}]
    out += [{"mode": "random", "n": 150000} for _ in range(6)]
    out += [{"mode": "linear", "n": 40000} for _ in range(2)]
    out += [{"mode": "inplace", "n": 40000} for _ in range(2)]
    lens = list(range(1, 41))
    for i in range(8):
        out.append({"mode": "detect", "lens": lens[i::8], "rand": 3000})
    return out


def _mk(container, msg):
    if container == "bytes":
        return bytes(msg)
    if container == "bytearray":
        return bytearray(msg)
    if container == "list":
        return list(msg)
    if container == "tuple":
        return tuple(msg)
    if container == "memoryview-slice":
        # a zero-copy frame inside a larger receive buffer
        pad = bytes([0xA5, 0x5A, 0xFF])
        return memoryview(pad + bytes(msg) + pad)[3:3 + len(msg)]
    return memoryview(bytes(msg))


_PREV = []      # the two messages checksummed last by _check_value (a replay repeats them first)
_TOTAL = [0]    # bytes handed to crc7() by _check_value so far in this process (a replay feeds as many first)


def _check_value(acc, crc7, msg, container="bytes", mode="value"):
    prev = list(_PREV)
    _PREV.append([list(msg), container])
    del _PREV[:-2]
    before = _TOTAL[0]
    _TOTAL[0] += len(msg)
    if 0 < len(msg) <= 8 and sum(msg) % 4 == 0 and mode != "pairs":
        # the same contents were offered a moment ago in a form crc7() refuses (float elements: TypeError); whatever that call
        # left behind must not show in the valid call (decided by the message itself, so a replay repeats it)
        try:
            crc7([float(b) for b in msg])
            acc.ev("float-elements-accepted(observation)")
        except Exception:  # noqa
            acc.ev("refused-call-with-the-same-contents-first")
    try:
        got = crc7(data=_mk(container, msg)) if len(msg) % 5 == 3 else crc7(_mk(container, msg))      # (the parameter is called data)
    except Exception as ex:  # noqa
        acc.evaluations += 1
        acc.violation("C20/raised", f"crc7() raised {ex!r} for a {len(msg)}-byte {container}",
                      {"mode": "value", "msg": list(msg), "container": container, "prev": prev, "bytes_before": before}, {})
        return False
    exp = ref_crc7(msg)
    acc.evaluations += 1
    acc.checks += 1
    if len(msg) >= 2 and any(msg):
        acc.nontrivial.add(stable_hash([mode, list(msg[:64]), len(msg)]))
    if got != exp or not isinstance(got, int) or not 0 <= got < 128:
        acc.violation("C20/value-mismatch", "crc7() differs from the bit-serial CRC-7",
                      {"mode": "value", "msg": list(msg), "container": container, "prev": prev, "bytes_before": before},
                      {"got": got, "expected": exp})
        return False
    if prev and len(prev[-1][0]) > len(msg):
        acc.ev("shorter-message-after-longer-one")
    return True


def _patterns(nbits):
    """All error patterns of the statement for a message of nbits bits, as sets of bit positions."""
    for i in range(nbits):
        yield "single-bit", (i,)
    for i in range(nbits):
        for j in range(i + 1, min(nbits, i + 127)):
            yield "double-bit", (i, j)
    # bursts: span 3..7 bits, first and last bit set (span 1,2 covered above), every interior mask
    for span in range(3, 8):
        for start in range(0, nbits - span + 1):
            for mask in range(1 << (span - 2)):
                bits = [start, start + span - 1] + [start + 1 + k for k in range(span - 2) if mask >> k & 1]
                if len(bits) > 2:
                    yield "burst", tuple(sorted(bits))


def _flip(msg, bits):
    m = bytearray(msg)
    for b in bits:
        m[b >> 3] ^= 1 << (b & 7)
    return bytes(m)


def _fold_probe(acc, crc7mod, msg):
    """Observe the running checksum after every byte inside the real crc7() frame."""
    import sys
    mon = sys.monitoring
    tool = 3
    code = crc7mod.crc7.__code__
    seen = []

    def on_line(c, line):
        if c is code:
            f = sys._getframe(1)
            loc = f.f_locals
            if "csum" in loc:
                seen.append(loc["csum"])

    mon.use_tool_id(tool, "vf-crc7")
    try:
        mon.register_callback(tool, mon.events.LINE, on_line)
        mon.set_local_events(tool, code, mon.events.LINE)
        got = crc7mod.crc7(msg)
    finally:
        mon.set_local_events(tool, code, 0)
        mon.register_callback(tool, mon.events.LINE, None)
        mon.free_tool_id(tool)
    # distinct running values in order of first observation at loop heads: collapse repeats
    states = [0]
    r = 0
    for b in msg:
        r = ref_step(r, b)
        states.append(r)
    # the observed sequence must be a stuttering of the reference state sequence
    possible = {0}
    for v in seen:
        possible = ({i for i in possible if states[i] == v}
                    | {i + 1 for i in possible if i + 1 < len(states) and states[i + 1] == v})
        if not possible:
            break
    ok = (len(states) - 1) in possible and len(seen) >= len(msg)
    return got, ok and got == states[-1], len(seen), states


def ref_step(r, b):
    r ^= b
    for _ in range(8):
        if r & 1:
            r ^= 0x91
        r >>= 1
    return r


def run_case(acc, crc7mod, case):
    """Execute one case dict; used by shards and by replay."""
    crc7 = crc7mod.crc7
    mode = case["mode"]
    if mode == "value":
        if case.get("prev") or case.get("bytes_before"):
            # first behind as many bytes as the process had checksummed before (a cumulative counter in the library), and behind
            # the messages that were checksummed just before it in its shard; then alone
            del _PREV[:]
            n_fill = max(0, case.get("bytes_before", 0) - sum(len(pm) for pm, _pc in case.get("prev") or ()))
            while n_fill > 0:
                k_ = min(n_fill, 4093)
                try:
                    crc7(bytes(k_))
                except Exception:  # noqa
                    pass
                n_fill -= k_
            for pm, pc in case.get("prev") or ():
                try:
                    crc7(_mk(pc, bytes(pm)))
                except Exception:  # noqa
                    pass
            a2 = type(acc)()
            if not _check_value(a2, crc7, bytes(case["msg"]), case.get("container", "bytes")):
                acc.violations.extend(a2.violations)
                acc.vcounts.update(a2.vcounts)
                return
            del _PREV[:]
        _check_value(acc, crc7, bytes(case["msg"]), case.get("container", "bytes"))
    elif mode == "linear":
        a, b = bytes(case["a"]), bytes(case["b"])
        x = bytes(p ^ q for p, q in zip(a, b))
        acc.evaluations += 1
        acc.checks += 1
        if crc7(a) ^ crc7(b) != crc7(x):
            acc.violation("C20/not-linear", "crc7(a)^crc7(b) != crc7(a^b) for equal-length messages",
                          case, {"a": crc7(a), "b": crc7(b), "x": crc7(x)})
    elif mode == "detect":
        msg = bytes(case["msg"])
        bits = case["bits"]
        acc.evaluations += 1
        acc.checks += 1
        if crc7(msg) == crc7(_flip(msg, bits)):
            acc.violation("C20/undetected-error", f"flipping bits {bits} leaves the checksum unchanged",
                          case, {"crc": crc7(msg)})
    elif mode == "inplace":
        run_inplace(acc, crc7mod, case)
    elif mode == "fold":
        msg = bytes(case["msg"])
        got, ok, nobs, states = _fold_probe(acc, crc7mod, msg)
        acc.evaluations += 1
        acc.checks += len(msg)
        # The probe looks INSIDE crc7() (a local running checksum seen through LINE events), so it can only ever add
        # evidence: a rewrite that keeps no such local (functools.reduce, a C extension) is simply unobservable.
        # The verdict is the returned value, as everywhere else.
        if got != states[-1]:
            acc.violation("C20/value-mismatch", "crc7() differs from the bit-serial CRC-7",
                          {"mode": "value", "msg": list(msg), "container": "bytes"}, {"got": got, "expected": states[-1]})
        elif nobs == 0:
            acc.ev("fold-structure-unobservable")
        elif ok:
            acc.ev("fold-structure-confirmed")
        else:
            acc.ev("fold-structure-differs(observation)")


def run_inplace(acc, crc7mod, case):
    """The same bytearray / list object is checksummed, changed in place, and checksummed again (a protocol buffer
    that is re-used for every message); optionally the data iterator itself calls crc7() on another message."""
    crc7 = crc7mod.crc7
    buf = bytearray(case["msg"]) if case["container"] != "list" else list(case["msg"])
    arg = buf
    if case["container"] == "memoryview":
        arg = memoryview(buf)             # ONE view object over the receive buffer, handed to crc7() for every message
        acc.ev("same-memoryview-object-rechecked")
    elif case["container"] == "memoryview-slice":
        buf = bytearray(b"\xa5\x5a\xff") + buf
        arg = memoryview(buf)[3:]
        acc.ev("same-memoryview-object-rechecked")
    off = 24 if case["container"] == "memoryview-slice" else 0
    acc.evaluations += 1
    for step in case["steps"]:
        if step[0] == "flip":
            buf[(step[1] + off) >> 3] ^= 1 << (step[1] & 7)
        cur = bytes(buf[off // 8:])
        if step[0] == "flip":
            pass
        elif step[0] == "nested":
            other = bytes(step[1])

            def gen(b=tuple(cur), other=other):
                for i, x in enumerate(b):
                    if i == len(b) // 2:
                        crc7(other)          # a second checksum computed while this one is in progress
                    yield x
            got = crc7(gen())
            acc.checks += 1
            acc.ev("nested-call")
            if got != ref_crc7(cur):
                acc.violation("C20/reentrant", "crc7() of an iterable whose iteration computes another crc7() differs from the bit-serial CRC-7",
                              case, {"got": got, "expected": ref_crc7(cur)})
                return
            continue
        try:
            got = crc7(arg)
        except Exception as ex:  # noqa
            acc.violation("C20/raised", f"crc7() raised {ex!r} for a {case['container']} object it had been given before", case, {})
            return
        acc.checks += 1
        acc.ev("same-object-rechecked")
        if got != ref_crc7(cur):
            acc.violation("C20/stale-after-in-place-change", "crc7() of a buffer object that was changed in place since its last checksum "
                          "differs from the bit-serial CRC-7", case, {"got": got, "expected": ref_crc7(cur)})
            return
    acc.nontrivial.add(stable_hash(["inplace", case["msg"], case["steps"]]))


def run_shard(spec):
    from robotpy_ext.misc import crc7 as crc7mod
    crc7 = crc7mod.crc7
    rng = random.Random(spec["seed"])
    acc = Acc()
    mode = spec["mode"]
    if mode == "pairs":
        trans = set()
        for a in range(256):
            ra = ref_step(0, a)
            for b in range(256):
                msg = bytes((a, b))
                _check_value(acc, crc7, msg, mode="pairs")
                trans.add((ra, b))
                acc.ev("pair-transition")
        # single bytes and empty
        _check_value(acc, crc7, b"")
        for a in range(256):
            _check_value(acc, crc7, bytes((a,)))
        acc.extra["distinct_fold_transitions"] = len(trans)
        acc.extra["exhaustive"] = True
        acc.extra["exhaustive_space"] = "all 65 536 two-byte messages, 256 one-byte messages, the empty message"
        acc.samples.append({"mode": "pairs", "msg": [0x12, 0x34], "crc7": crc7(bytes((0x12, 0x34)))})
    elif mode == "pyopt":
        # the same function under `python -O` / `-OO` (assert statements and docstrings stripped): a child interpreter
        # computes the checksums of a batch of messages, the reference is applied here
        import json as _json
        import subprocess
        import sys
        msgs = [bytes(rng.randrange(256) for _ in range(rng.choice([0, 1, 2, 7, 33, 300]))) for _ in range(spec["n"])]
        for flag in ("-O", "-OO"):
            prog = ("import sys, json\nfrom robotpy_ext.misc.crc7 import crc7\n"
                    "print(json.dumps([crc7(bytes(m)) for m in json.load(sys.stdin)]))")
            r = subprocess.run([sys.executable, flag, "-c", prog], input=_json.dumps([list(m) for m in msgs]), capture_output=True,
                               text=True, timeout=300, env=dict(os.environ))
            acc.evaluations += 1
            acc.ev("interpreter-with-optimisation-flag")
            case = {"mode": "pyopt", "flag": flag, "msgs": [list(m) for m in msgs[:20]]}
            if r.returncode != 0:
                acc.violation("C20/raised", f"crc7() under `python {flag}` failed: {r.stderr.strip().splitlines()[-1] if r.stderr.strip() else r.returncode}", case, {})
                continue
            got = _json.loads(r.stdout.strip().splitlines()[-1])
            acc.checks += len(msgs)
            bad = [k for k, m in enumerate(msgs) if got[k] != ref_crc7(m)]
            if bad:
                acc.violation("C20/value-mismatch", f"crc7() under `python {flag}` differs from the bit-serial CRC-7 for {len(bad)} of {len(msgs)} messages",
                              dict(case, msgs=[list(msgs[bad[0]])]), {"got": got[bad[0]], "expected": ref_crc7(msgs[bad[0]])})
            else:
                acc.nontrivial.add(stable_hash(["pyopt", flag, len(msgs)]))
    elif mode == "fold":
        for i in range(spec["n"]):
            n = rng.choice([1, 2, 3, 8, 17, 64, rng.randrange(1, 300)])
            msg = bytes(rng.randrange(256) for _ in range(n))
            before = len(acc.violations)
            run_case(acc, crc7mod, {"mode": "fold", "msg": list(msg)})
            acc.ev("fold-step-checked", len(msg))
            acc.nontrivial.add(stable_hash(["fold", list(msg)]))
            if i == 0:
                acc.samples.append({"mode": "fold", "len": n, "crc7": crc7(msg)})
    elif mode == "random":
        conts = ["bytes", "bytearray", "list", "tuple", "memoryview", "memoryview-slice"]
        for i in range(spec["n"]):
            r = rng.random()
            if r < 0.3:
                n = rng.randrange(0, 12)
            elif r < 0.9:
                n = rng.randrange(12, 300)
            else:
                n = rng.randrange(300, 4097)
            style = rng.randrange(5)
            if i % 97 == 5:
                # long transfers: several 4096-byte blocks, zero bytes at and around the block boundaries
                n = rng.choice([4097, 8192, 8193, 12289, 20000])
                b_ = bytearray(rng.randbytes(n))
                for k_ in range(4096, n, 4096):
                    for o_ in (-1, 0, 1):
                        if rng.random() < 0.7 and k_ + o_ < n:
                            b_[k_ + o_] = 0
                msg = bytes(b_)
                acc.ev("message-longer-than-4096-bytes")
                style = -1
            if style == -1:
                pass
            elif style == 4:
                # a long run of zero bytes behind a non-zero prefix (the register keeps cycling through its 127 non-zero states)
                msg = rng.randbytes(rng.randrange(1, 6)) + bytes(rng.choice([126, 127, 128, 129, 254, 255, 256, 381, 1000])) \
                    + rng.randbytes(rng.randrange(0, 4))
                acc.ev("long-zero-run-behind-a-prefix")
            elif style == 0:
                msg = bytes(rng.randrange(256) for _ in range(n))
            elif style == 1:
                msg = bytes(rng.choice((0, 0xFF, 0x80, 1)) for _ in range(n))
            elif style == 2:
                msg = bytes(n)  # all zero, any length
            else:
                msg = rng.randbytes(n)
            c = conts[i % len(conts)]
            _check_value(acc, crc7, msg, c, mode="random")
            acc.ev("random-message")
            acc.ev("container-" + c)
            if i < 2:
                acc.samples.append({"mode": "random", "len": n, "container": c, "head": list(msg[:8]), "crc7": crc7(msg)})
    elif mode == "inplace":
        for i in range(spec["n"]):
            n = rng.choice([1, 2, 6, 20, rng.randrange(1, 120)])
            steps = [["sum"]]
            for _ in range(rng.choice([1, 3, 6])):
                steps.append(rng.choice([["flip", rng.randrange(8 * n)], ["flip", rng.randrange(8 * n)], ["sum"],
                                         ["nested", list(rng.randbytes(rng.randrange(1, 9)))]]))
            case = {"mode": "inplace", "msg": list(rng.randbytes(n)), "container": rng.choice(["bytearray", "list", "memoryview", "memoryview-slice"]), "steps": steps}
            run_case(acc, crc7mod, case)
            if i == 0:
                acc.samples.append(case)
    elif mode == "linear":
        for i in range(spec["n"]):
            n = rng.choice([1, 2, 5, 16, rng.randrange(1, 200)])
            a = rng.randbytes(n)
            b = rng.randbytes(n)
            run_case(acc, crc7mod, {"mode": "linear", "a": list(a), "b": list(b)})
            acc.nontrivial.add(stable_hash(["lin", list(a), list(b)]))
            acc.ev("linearity-pair")
    elif mode == "detect":
        for n in spec["lens"]:
            base = bytes(n)  # by linearity the zero message decides detection for every message...
            c0 = crc7(base)
            for kind, bits in _patterns(8 * n):
                acc.evaluations += 1
                acc.checks += 1
                acc.ev(kind)
                acc.nontrivial.add(stable_hash(["det", n, bits]))
                if crc7(_flip(base, bits)) == c0:
                    acc.violation("C20/undetected-error", f"flipping bits {list(bits)} of a {n}-byte message leaves the checksum unchanged",
                                  {"mode": "detect", "msg": list(base), "bits": list(bits)}, {"crc": c0})
            # ... and is re-checked directly on random messages, not through linearity
            pats = list(_patterns(8 * n)) if n <= 4 else None
            for _ in range(spec["rand"]):
                msg = rng.randbytes(n)
                if pats:
                    kind, bits = rng.choice(pats)
                else:
                    k = rng.randrange(3)
                    if k == 0:
                        kind, bits = "single-bit", (rng.randrange(8 * n),)
                    elif k == 1:
                        i = rng.randrange(8 * n - 1)
                        j = rng.randrange(i + 1, min(8 * n, i + 127))
                        kind, bits = "double-bit", (i, j)
                    else:
                        span = rng.randrange(3, 8)
                        st = rng.randrange(0, 8 * n - span + 1)
                        inner = [st + 1 + q for q in range(span - 2) if rng.random() < 0.5]
                        kind, bits = "burst", tuple([st] + inner + [st + span - 1])
                acc.ev(kind)
                acc.ev("random-message-flip")
                acc.nontrivial.add(stable_hash(["detr", list(msg), bits]))
                run_case(acc, crc7mod, {"mode": "detect", "msg": list(msg), "bits": list(bits)})
        acc.samples.append({"mode": "detect", "lengths": spec["lens"][:6], "patterns_checked": acc.checks})
    if not spec.get("_in_replay"):
        for v in acc.violations:
            # what crc7() did with the calls that came earlier in the shard is part of the case's history: a replay that does
            # not reproduce the case alone repeats the whole shard and accepts the same kind of violation there
            if isinstance(v.get("case"), dict):
                v["case"] = dict(v["case"], shard_spec={k: x for k, x in spec.items()}, vkey=v["key"])
    return acc.result()


def replay(pid, case):
    from robotpy_ext.misc import crc7 as crc7mod
    acc = Acc()
    if case.get("mode") == "pyopt":
        import json as _json
        import subprocess
        import sys
        prog = ("import sys, json\nfrom robotpy_ext.misc.crc7 import crc7\n"
                "print(json.dumps([crc7(bytes(m)) for m in json.load(sys.stdin)]))")
        r = subprocess.run([sys.executable, case["flag"], "-c", prog], input=_json.dumps(case["msgs"]), capture_output=True, text=True,
                           timeout=300, env=dict(os.environ))
        if r.returncode != 0:
            return {"key": "C20/raised", "what": f"crc7() under `python {case['flag']}` failed: {r.stderr.strip()[-200:]}", "case": case, "detail": {}}
        got = _json.loads(r.stdout.strip().splitlines()[-1])
        bad = [k for k, m in enumerate(case["msgs"]) if got[k] != ref_crc7(bytes(m))]
        if bad:
            return {"key": "C20/value-mismatch", "what": f"crc7() under `python {case['flag']}` differs from the bit-serial CRC-7", "case": case, "detail": {}}
        return None
    run_case(acc, crc7mod, case)
    if not acc.violations and case.get("shard_spec") and case["shard_spec"].get("mode") != "pyopt":
        res = run_shard(dict(case["shard_spec"], _in_replay=True))
        same = [v for v in res["violations"] if v["key"] == case.get("vkey")]
        if same:
            v = same[0]
            v["what"] = "(reproduced by repeating the shard's whole call sequence) " + v["what"]
            return v
    return acc.violations[0] if acc.violations else None
