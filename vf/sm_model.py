"""Executable reference model of magicbot.StateMachine / AutonomousStateMachine, written
from the statements of C01-C04 and C13 (DESIGN.md section 3.2).  All times are integer
microseconds of the simulated FPGA clock.  The model is set-valued: ties (section 2.4)
and don't-cares fork it, observations prune it.

The model never looks at the implementation; its inputs are the machine *shape* (from the
generator), the external operations, the clock value at each call, the duration values that
were readable on the NetworkTables topics, and - for pruning only - the observed events.
"""
from __future__ import annotations

GRID = 15625  # us; multiples are exactly representable as seconds in a double
TOL = 1e-9


class NeedChoice(Exception):
    pass


class Entry:
    __slots__ = ("name", "has_run", "s", "pend", "d", "by")

    def __init__(self, name, by, pend=None):
        self.name = name
        self.has_run = False
        self.s = None      # start, machine time us
        self.pend = pend   # start dictated by the predecessor's expiry
        self.d = None      # duration us (None: untimed)
        self.by = by       # how it was entered: engage | next | now | expiry | restart

    def clone(self):
        e = Entry(self.name, self.by, self.pend)
        e.has_run, e.s, e.d = self.has_run, self.s, self.d
        return e


class Member:
    """One possible model state."""
    __slots__ = ("running", "cur", "req", "origin", "last_default", "dzero", "dflt_any",
                 "latch", "grid_ok", "user_done_since_engage", "counts", "last_exp")

    def __init__(self):
        self.running = False
        self.cur = None
        self.req = False
        self.origin = 0
        self.last_default = False   # the most recently invoked state function was the default state
        self.dzero = None           # absolute us at which the default state's state_tm is zero
        self.dflt_any = False       # next default run may or may not be an initial call
        self.latch = False          # AutonomousStateMachine: armed by on_enable
        self.grid_ok = True         # every time that entered origin/s so far lies on the 1/64 s grid
        self.user_done_since_engage = False
        self.counts = {}            # per state: number of invocations so far (index into the script)
        self.last_exp = {}          # per timed state: start+duration of its most recent entry (what a stale expiry would be)

    def clone(self):
        m = Member()
        for k in Member.__slots__:
            setattr(m, k, getattr(self, k))
        m.cur = self.cur.clone() if self.cur else None
        m.counts = dict(self.counts)
        m.last_exp = dict(self.last_exp)
        return m


class Pred:
    """Prediction for one external call: expected state-function invocations etc."""

    def __init__(self):
        self.calls = []        # list of dict(name, tm, state_tm, ic, kind, optional)
        self.must_done = False
        self.events = []       # model event kinds (for the evidence), counted only if the member survives
        self.expiry_involved = False
        self.start_iteration = False
        self.stop_predicted = False
        self.c02 = []          # timing obligations of C02 this branch violates (decision adopted from the implementation)
        self.fresh_timed_next = None   # successor of a freshly entered timed state (diagnosis: expired before it ran)


ANY = "ANY"


class Model:
    def __init__(self, shape, auto=False, grid=False):
        """shape: dict name -> dict(kind, must_finish, next, first) ; kind in state|timed|default"""
        self.shape = shape
        self.auto = auto
        # strict boundary verdicts only in cases whose every clock value lies on the 1/64 s grid by construction:
        # a start time that merely happens to be a grid multiple in microseconds may carry the float error of an
        # earlier off-grid clock reading (found by the thorough tier at FPGA time 5.7e4 s, see DESIGN.md)
        self.grid = grid
        self.first = [n for n, s in shape.items() if s.get("first")][0]
        d = [n for n, s in shape.items() if s["kind"] == "default"]
        self.default = d[0] if d else None
        self.members = [Member()]

    # ------------------------------------------------------------------ external ops
    def op_engage(self, initial=None, force=False):
        out = []
        for m in self.members:
            m.req = True
            if force and m.cur is not None:
                # what force=True does to a machine that is already running is not part of any statement
                # (only of the docstring): both readings are kept, the observation decides
                out.append(m.clone())
            if force or m.cur is None:
                m.cur = Entry(initial or self.first, "engage")
                m.user_done_since_engage = False
                if m.last_default:
                    m.dflt_any = True
            out.append(m)
        self.members = out
        return self

    def op_done(self):
        for m in self.members:
            m.running = False
            m.cur = None
            m.user_done_since_engage = True
            if self.auto:
                m.req = False
                m.latch = False
            if m.last_default:
                m.dflt_any = True

    def op_on_enable(self):
        for m in self.members:
            m.latch = True

    # ------------------------------------------------------------------ one iteration
    def simulate(self, m: Member, now: int, durations, script, choices):
        """Deterministic given `choices` (list of 0/1 consumed at ties).  Returns (Pred, Member').
        durations(name) -> us value readable now; script: state -> list of scripted actions, indexed
        by the state's invocation count."""
        m = m.clone()
        p = Pred()
        p.default_name = self.default
        ci = [0]

        def choose():
            if ci[0] >= len(choices):
                raise NeedChoice()
            c = choices[ci[0]]
            ci[0] += 1
            return c

        def script_action(name):
            i = m.counts.get(name, 0)
            m.counts[name] = i + 1
            sc = script.get(name)
            if sc and script.get("__cyclic__"):
                return sc[i % len(sc)]          # the script repeats for as long as the case runs
            return sc[i] if sc and i < len(sc) else None

        self._step(m, p, now, durations, script_action, choose, nested=False)
        m.req = False
        return p, m

    def _hop(self, m, p, cur, exp, tm):
        """The current timed state has expired at machine time `exp`: hand over, finish, or start over."""
        sh = self.shape
        if tm - exp > 3 * max(cur.d or 0, 1):
            p.events.append("long-pause-expiry")
        nxt = sh[cur.name].get("next")
        if nxt is None:
            p.must_done = True
            if m.req and not self.auto:
                m.origin += exp
                if exp % GRID:
                    m.grid_ok = False
                m.cur = Entry(self.first, "restart", pend=0)
                p.events.append("cycle-restart")
            else:
                m.cur = None
                m.running = False
                p.stop_predicted = True
                p.events.append("expiry-finish-stop")
                if self.auto:
                    m.req = False
                    m.latch = False
        else:
            m.cur = Entry(nxt, "expiry", pend=exp)
            p.events.append("expiry-hop")
        p.expired_since = tm - exp

    def _step(self, m, p, now, durations, script_action, choose, nested):
        sh = self.shape
        if not nested:
            if not m.running:
                if m.req and m.cur is not None:
                    m.origin = now
                    m.running = True
                    m.grid_ok = now % GRID == 0
                    p.start_iteration = True
                    p.events.append("machine-start")
            tm = now - m.origin if m.running else None
            cur = m.cur
            # ---- expiry of a timed state that has run.  The decision the implementation took is always
            # adopted (fork, pruned by the observation) so that the other clauses are judged on the
            # implementation's own timeline; the decision itself is judged against the statement (C02).
            if m.running and cur is not None and cur.has_run and cur.d is not None:
                p.expiry_involved = True
                exp = cur.s + cur.d
                if tm > exp:
                    verdict = True
                elif tm < exp:
                    verdict = False
                elif self.grid and m.grid_ok and now % GRID == 0 and cur.s % GRID == 0 and cur.d % GRID == 0:
                    verdict = False    # exact landing, every operand exactly representable: tm <= s+d still runs
                    p.events.append("exact-landing-strict")
                else:
                    verdict = None     # tie on inexact operands: both outcomes accepted
                    p.events.append("tie-forked")
                expired = bool(choose())
                if verdict is not None and expired != verdict:
                    p.c02.append(f"timed state {cur.name} entered at machine time {cur.s / 1e6!r} s with duration "
                                 f"{cur.d / 1e6!r} s {'expired' if expired else 'was still run'} at tm={tm / 1e6!r} s")
                if expired:
                    self._hop(m, p, cur, exp, tm)
            elif m.running and cur is not None and not cur.has_run and sh[cur.name]["kind"] == "timed":
                # "a state that has just been entered is always run once before it can expire": an implementation
                # that tests a stale expiry (from the state's previous entry) would skip it.  Adopted as a fork, judged (C02).
                stale = m.last_exp.get(cur.name)
                if stale is not None and stale < tm and choose():
                    p.c02.append(f"timed state {cur.name} was entered but expired before it ever ran "
                                 f"(expiry {stale / 1e6!r} s left over from its previous entry, tm={tm / 1e6!r} s)")
                    p.expiry_involved = True
                    self._hop(m, p, cur, stale, tm)
        tm = now - m.origin if m.running else None
        cur = m.cur
        # ---- disengagement outside must_finish
        if cur is not None and not (m.req or sh[cur.name].get("must_finish")):
            m.cur = None
            cur = None
            if m.running:
                p.must_done = True
                p.stop_predicted = True
                m.running = False
                p.events.append("disengage-stop" if not nested else "disengage-stop-nested")
        elif cur is not None and not m.req:
            p.events.append("must_finish-continue")
        # ---- nothing to run: default state or nothing
        if cur is None:
            if m.running:
                # engage(); done(); execute(): the implementation may count the machine as started
                # for the duration of this call; afterwards it is not running
                m.running = False
            if self.default is not None:
                optional = self.auto
                if m.dflt_any:
                    ic = ANY
                elif m.last_default:
                    ic = False
                else:
                    ic = True
                script_action(self.default)
                call = {"name": self.default, "tm": ANY, "ic": ic, "kind": "default", "optional": optional,
                        "now": now, "dzero": m.dzero,
                        "since_exp": getattr(p, "expired_since", None)}
                p.calls.append(call)
                p.events.append("default-run" if ic is False else "default-fallback")
                m.last_default = True
                m.dflt_any = False
            return
        # ---- run the current regular state
        if not m.running:
            # cur set, not running: only possible in a nested step after a stop; nothing runs
            return
        ic = not cur.has_run
        if ic:
            cur.has_run = True
            if cur.pend is not None and cur.by == "expiry" and cur.pend != tm and choose():
                # the successor's clock started at the iteration that noticed the expiry: adopted, judged (C02)
                cur.s = tm
                p.c02.append(f"state {cur.name} entered by expiry: its clock starts at tm={tm / 1e6!r} s instead of the "
                             f"predecessor's expiry instant {cur.pend / 1e6!r} s")
            else:
                cur.s = cur.pend if cur.pend is not None else tm
            if sh[cur.name]["kind"] == "timed":
                cur.d = durations(cur.name)
                m.last_exp[cur.name] = cur.s + cur.d
                if not p.calls:
                    p.fresh_timed_next = sh[cur.name].get("next") or self.first
            p.events.append("entry-by-" + cur.by)
        call = {"name": cur.name, "tm": tm, "state_tm": tm - cur.s, "ic": ic, "kind": "regular",
                "by": cur.by, "start": p.start_iteration and len(p.calls) == 0}
        p.calls.append(call)
        m.last_default = False
        m.dflt_any = False
        act = script_action(cur.name)
        if act is None:
            return
        kind = act[0]
        if kind == "next":
            m.cur = Entry(act[1], "next")
            p.events.append("in-state-next" + ("-self" if act[1] == cur.name else ""))
        elif kind == "now":
            m.cur = Entry(act[1], "now")
            p.events.append("now-chain")
            self._step(m, p, now, durations, script_action, choose, nested=True)
        elif kind in ("done", "done_now"):
            m.running = False
            m.cur = None
            m.user_done_since_engage = True
            p.events.append("in-state-done")
            if self.auto:
                m.req = False
                m.latch = False


def close(a, b_us):
    return isinstance(a, float) and abs(a - b_us / 1e6) <= TOL
