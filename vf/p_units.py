"""C18 - units.convert consistency; MaxSonar and REV pressure drivers report exact scaled values."""
from __future__ import annotations

import itertools
import math
import random
from fractions import Fraction

from .common import Acc, stable_hash

PROPERTIES = {"C18": "units / sonar / pressure"}
RULE = {"C18": "units: all 64 ordered triples of the four defined units x a value palette (identity, round trip, composition, "
               "homogeneity, additivity, exact rational ratio) and random user-defined unit chains of depth 1-6 hung under a "
               "defined unit or a fresh root; sonar: real driver objects for every output unit, pulse width through a stub "
               "counter (the simulator has no period setter), analog voltage through AnalogInputSim; pressure: real "
               "AnalogInput, random V / Vcc / calibration pressure incl. 0, negatives, inf and Vcc=0. Non-trivial = source and "
               "target unit differ and value != 0 (units), reading > 0 (sensors); distinct = distinct (units, value) / "
               "(sensor, reading, parameters)."}
RULE["C18"] += "  Also: linear user chains 8-24 deep and chains of 1100-5200 units (deeper than the recursion limit); sonars that see another sonar's raw reading."
REQUIRED = {"C18": {"triple-checked": 64, "user-chain-checked": 300, "named-ratio": 3, "sonar-pulse": 400, "sonar-analog": 400, "sonar-user-defined-output-unit": 100,
                    "pressure-positive": 400, "pressure-floor": 20, "pressure-never-raises": 400, "pressure-vcc-zero": 5,
                    "calibrate-roundtrip": 300, "user-chain-deeper-than-10": 100, "user-chain-deeper-than-1000": 10, "sonar-same-raw-reading-as-previous-sonar": 300}}
ASSUMPTIONS = {"C18": ["results whose exact rational value lies outside [1e-290, 1e290] are not compared (overflow/underflow is 'floating-point rounding'); the same holds when the value expressed in the chain's ultimate base unit - through which every conversion goes - leaves that range (a chain of 108 nested 1/1000 sub-units)",
                       "Counter.getPeriod has no simulator setter: the driver's counter attribute is replaced by a stub with getPeriod(), as the repository's own test does"]}

F = {"meter": Fraction(1), "centimeter": Fraction(1, 100), "foot": Fraction("0.3048"), "inch": Fraction("0.3048") / 12}
ULP = 2.3e-16


def shards(pid, tier, seed):
    if tier == "quick":
        return [{"mode": "units", "n": 2000}, {"mode": "sensors", "n": 3000}, {"mode": "sensors", "n": 3000}]
    return [{"mode": "units", "n": 60000} for _ in range(8)] + [{"mode": "sensors", "n": 60000} for _ in range(8)]


def _in_range(fr):
    return fr == 0 or Fraction(1, 10 ** 290) < abs(fr) < Fraction(10 ** 290)


def _close(got, exp_fr, ulps):
    if not isinstance(got, (int, float)) or (isinstance(got, float) and not math.isfinite(got)):
        return False
    if exp_fr == 0:
        return got == 0
    return abs(Fraction(got) - exp_fr) <= abs(exp_fr) * Fraction(ulps * ULP)


VALUES = [0, 0.0, 1, -1, 1.0, 2.54, 12, 30.48, 100, 0.3048, 1e-9, -1e-9, 1e9, 123456.789, -0.001, 3, 7.25, 1e-200, 1e200, -1e150]


class Chain:
    """A user-defined unit with its exact factor to the root."""

    def __init__(self, unit, factor, root, depth, desc):
        self.unit, self.factor, self.root, self.depth, self.desc = unit, factor, root, depth, desc


def build_units(rng, units_mod, spec=None):
    """Returns list of Chain objects: the four defined units + random user-defined chains."""
    U = units_mod
    out = [Chain(U.meter, F["meter"], "m", 0, "meter"), Chain(U.centimeter, F["centimeter"], "m", 1, "centimeter"),
           Chain(U.foot, F["foot"], "m", 1, "foot"), Chain(U.inch, F["inch"], "m", 2, "inch")]
    plan = spec if spec is not None else []
    if spec is None and rng.random() < 0.2:
        # one long linear chain stacked on a stock unit (e.g. a drivetrain's encoder ticks -> rotations -> ... ), 8-24 deep
        parent = rng.randrange(0, 4)
        for i in range(rng.randrange(8, 25)):
            plan.append([parent, rng.choice([2.0, 0.5, 10.0, 12.0, 3.0, 0.3048, -1.0, 0.1, 4.0])])
            parent = 4 + i
    elif spec is None:
        for i in range(rng.randrange(1, 7)):
            parent = rng.randrange(-1, len(out) + len(plan))       # -1: fresh root
            k = rng.choice([2.0, 0.5, 10.0, 12.0, 3.0, 0.3048, 1e3, 1e-3, 1609.344, -1.0, rng.uniform(0.01, 100)])
            plan.append([parent, k] + ([1] if rng.random() < 0.2 else []))
    for parent, k, *via in plan:
        if parent < 0:
            unit = U.Unit(base_unit=None, base_to_unit=lambda x: None, unit_to_base=lambda x: None)
            out.append(Chain(unit, Fraction(1), f"r{len(out)}", 0, f"root{len(out)}"))
        else:
            p = out[parent]
            if via:
                # a unit whose own callables are written with convert() (a yard expressed through the stock foot): a
                # conversion inside a conversion
                unit = U.Unit(base_unit=p.unit, base_to_unit=(lambda x, k=k: U.convert(U.foot, U.inch, x) / (12 * k)),
                              unit_to_base=(lambda x, k=k: U.convert(U.inch, U.foot, x * 12) * k))
                desc = f"{p.desc}*{k!r}(via convert)"
                out.append(Chain(unit, p.factor * Fraction(k), p.root, p.depth + 4, desc))
                continue
            if (len(out) + int(abs(k) * 7)) % 3 == 0:
                unit = U.Unit(p.unit, (lambda x, k=k: x / k), (lambda x, k=k: x * k))       # positionally, in the documented order
            else:
                unit = U.Unit(base_unit=p.unit, base_to_unit=(lambda x, k=k: x / k), unit_to_base=(lambda x, k=k: x * k))
            desc = f"{p.desc}*{k!r}" if p.depth < 30 else f"{p.desc.split('*')[0]}*<{p.depth + 1} factors>"
            out.append(Chain(unit, p.factor * Fraction(k), p.root, p.depth + 1, desc))
    return out, plan


def check_convert(acc, U, a: Chain, b: Chain, x, case, key_prefix="C18/convert"):
    acc.evaluations += 1
    try:
        got = U.convert(a.unit, b.unit, x)
    except Exception as ex:  # noqa
        acc.violation(key_prefix + "-raised", f"convert({a.desc}->{b.desc}, {x!r}) raised {ex!r}", case, {})
        return None
    exp = Fraction(x) * a.factor / b.factor
    if not _in_range(exp) or not _in_range(Fraction(x) * a.factor):
        # (also when the value expressed in the ultimate base unit, through which every conversion goes, leaves the range)
        acc.ev("dont-care-out-of-double-range")
        return got
    acc.checks += 1
    if not _close(got, exp, 8 * (a.depth + b.depth + 2)):
        acc.violation(key_prefix + "-value", f"convert({a.desc} -> {b.desc}, {x!r}) = {got!r}, exact value {float(exp)!r}", case,
                      {"got": repr(got), "expected": repr(float(exp))})
    if a is not b and x != 0:
        acc.nontrivial.add(stable_hash([a.desc, b.desc, repr(x)]))
    return got


def run_units_case(acc, U, case):
    rng = random.Random(case["cseed"])
    chains, plan = build_units(rng, U, case.get("plan"))
    case = dict(case)
    case["plan"] = plan
    if any(len(p_) > 2 for p_ in plan):
        acc.ev("unit-whose-callables-use-convert")
    if case["kind"] == "triples":
        for a, b, c in itertools.product(chains[:4], repeat=3):
            for x in VALUES:
                ab = check_convert(acc, U, a, b, x, case)
                ac = check_convert(acc, U, a, c, x, case)
                if ab is None or ac is None:
                    continue
                e_ab = Fraction(x) * a.factor / b.factor
                if not _in_range(e_ab) or not _in_range(Fraction(x) * a.factor / c.factor):
                    continue
                bc = U.convert(b.unit, c.unit, ab)
                ba = U.convert(b.unit, a.unit, ab)
                acc.checks += 3
                if not _close(bc, Fraction(x) * a.factor / c.factor, 64) or not _rel(bc, ac, 64):
                    acc.violation("C18/composition", f"{a.desc}->{b.desc}->{c.desc} of {x!r} = {bc!r} but direct = {ac!r}", case, {})
                if not _rel(ba, x, 64):
                    acc.violation("C18/roundtrip", f"{a.desc}->{b.desc}->{a.desc} of {x!r} = {ba!r}", case, {})
                if a is b and not _rel(ab, x, 16):
                    acc.violation("C18/identity", f"convert({a.desc},{a.desc},{x!r}) = {ab!r}", case, {})
            acc.ev("triple-checked")
        for a, b, want in ((chains[0], chains[1], 100), (chains[2], chains[0], Fraction("0.3048")), (chains[2], chains[3], 12)):
            got = U.convert(a.unit, b.unit, 1)
            acc.checks += 1
            acc.ev("named-ratio")
            if not _close(got, Fraction(want), 8):
                acc.violation("C18/named-ratio", f"1 {a.desc} = {got!r} {b.desc}, expected {float(want)}", case, {})
        return case
    # random user-defined chains (same root only)
    for _ in range(case.get("reps", 12)):
        a = rng.choice(chains) if not case.get("deep_only") else rng.choice(chains[-3:] + chains[:4])
        if case.get("deep_only") and _ % 2:
            same = [c for c in chains if c.root == a.root]
            # neighbours in the chain, and the unit itself: results of ordinary size whatever the depth
            b = rng.choice([c for c in same if abs(c.depth - a.depth) <= 2])
            x = rng.uniform(-1e6, 1e6)
            got = check_convert(acc, U, a, b, x, case)
            acc.ev("deep-chain-neighbours")
            if max(a.depth, b.depth) > 1000:
                acc.ev("user-chain-deeper-than-1000")
            continue
        same = [c for c in chains if c.root == a.root]
        b = rng.choice(same)
        c = rng.choice(same)
        x = rng.choice(VALUES) if rng.random() < 0.3 else rng.uniform(-1e6, 1e6) if rng.random() < 0.7 else 10 ** rng.uniform(-30, 30)
        k = rng.choice([2, -3, 0.5, 1e3, 7])
        y = rng.uniform(-1e3, 1e3)
        ab = check_convert(acc, U, a, b, x, case)
        if ab is None:
            continue
        acc.ev("user-chain-checked")
        if a.depth + b.depth >= 6:
            acc.ev("user-chain-deep")
        if max(a.depth, b.depth) > 10:
            acc.ev("user-chain-deeper-than-10")
        if max(a.depth, b.depth) > 1000:
            acc.ev("user-chain-deeper-than-1000")
        e = Fraction(x) * a.factor / b.factor
        if not _in_range(e) or not _in_range(e * k) or not _in_range(Fraction(x) * a.factor) or not _in_range(Fraction(x + y) * a.factor * k):
            continue
        tol = 32 * (a.depth + b.depth + c.depth + 2)
        acc.checks += 4
        try:
            _algebra(acc, U, a, b, c, x, y, k, ab, tol, case)
        except Exception as ex:  # noqa
            acc.violation("C18/convert-raised", f"convert() between {a.desc}, {b.desc}, {c.desc} raised {ex!r}", case, {})
    return case


def _algebra(acc, U, a, b, c, x, y, k, ab, tol, case):
    if not _rel(U.convert(b.unit, c.unit, ab), U.convert(a.unit, c.unit, x), tol):
        acc.violation("C18/composition", f"{a.desc}->{b.desc}->{c.desc} of {x!r} differs from the direct conversion", case, {})
    if not _rel(U.convert(b.unit, a.unit, ab), x, tol):
        acc.violation("C18/roundtrip", f"{a.desc}->{b.desc}->{a.desc} of {x!r} = {U.convert(b.unit, a.unit, ab)!r}", case, {})
    if not _rel(U.convert(a.unit, b.unit, k * x), k * ab, tol):
        acc.violation("C18/homogeneity", f"convert({a.desc}->{b.desc}) is not homogeneous at {x!r} * {k}", case, {})
    s1 = U.convert(a.unit, b.unit, x + y)
    s2 = ab + U.convert(a.unit, b.unit, y)
    scale = max(abs(ab), abs(s2 - ab), 1e-300)
    if abs(s1 - s2) > tol * ULP * scale * 4:
        acc.violation("C18/additivity", f"convert({a.desc}->{b.desc}) is not additive at {x!r} + {y!r}: {s1!r} vs {s2!r}", case, {})


def _rel(a, b, ulps):
    if not all(isinstance(v, (int, float)) for v in (a, b)):
        return False
    if a == b:
        return True
    return abs(a - b) <= ulps * ULP * max(abs(a), abs(b))


# ----------------------------------------------------------------------------- sensors
class _Counter:
    def __init__(self):
        self.period = 0.0

    def getPeriod(self):
        return self.period


_S = {}


def sensor_objects():
    if not _S:
        from robotpy_ext.common_drivers import xl_max_sonar_ez as sonar, pressure_sensors as ps, units as U
        from wpilib.simulation import AnalogInputSim
        import io, contextlib
        unit_objs = {"meter": U.meter, "centimeter": U.centimeter, "foot": U.foot, "inch": U.inch}
        _S["units"] = unit_objs
        _S["pulse"], _S["analog"] = {}, {}
        with contextlib.redirect_stdout(io.StringIO()):
            for i, (un, uo) in enumerate(unit_objs.items()):
                p = sonar.MaxSonarEZPulseWidth(i, uo) if un != "inch" else sonar.MaxSonarEZPulseWidth(i)   # default unit: inch
                stub = _Counter()
                p.counter = stub
                _S["pulse"][un] = (p, stub)
                a = sonar.MaxSonarEZAnalog(i, uo) if un != "inch" else sonar.MaxSonarEZAnalog(i)
                _S["analog"][un] = (a, AnalogInputSim(a.analog))
        # user-defined output units (hung under different stock units; some share their local factor with a stock unit)
        user = {}
        for uname, (base, k) in {"centifoot": ("foot", 100), "twelfth_inch": ("inch", 12), "twelfth_meter": ("meter", 12),
                                 "kilo_cm": ("centimeter", Fraction(1, 1000))}.items():
            kf = float(k)
            user[uname] = U.Unit(base_unit=unit_objs[base], base_to_unit=(lambda x, kf=kf: x * kf), unit_to_base=(lambda x, kf=kf: x / kf))
            F[uname] = F[base] / Fraction(k)
        _S["units"].update(user)
        with contextlib.redirect_stdout(io.StringIO()):
            for i, (un, uo) in enumerate(user.items()):
                p = sonar.MaxSonarEZPulseWidth(4 + i, uo)
                stub = _Counter()
                p.counter = stub
                _S["pulse"][un] = (p, stub)
        _S["pressure"] = []
        for ch, args in ((4, ()), (5, (3.3,)), (6, (12,))):
            s = ps.REVAnalogPressureSensor(ch, *args)
            _S["pressure"].append((s, AnalogInputSim(s.sensor), args[0] if args else 5))
    return _S


def run_sensor_case(acc, case):
    S = sensor_objects()
    k = case["kind"]
    acc.evaluations += 1
    if case.get("same_raw_as_previous_sonar"):
        acc.ev("sonar-same-raw-reading-as-previous-sonar")
    if k == "pulse":
        s, stub = S["pulse"][case["unit"]]
        stub.period = case["x"]
        try:
            got = s.get()
        except Exception as ex:  # noqa
            acc.violation("C18/sonar-raised", f"MaxSonarEZPulseWidth.get() raised {ex!r}", case, {})
            return
        exp = Fraction(case["x"]) / Fraction("0.000147") * F["inch"] / F[case["unit"]]
        acc.checks += 1
        acc.ev("sonar-pulse")
        if case["unit"] not in ("meter", "centimeter", "foot", "inch"):
            acc.ev("sonar-user-defined-output-unit")
        if case["x"] > 0:
            acc.nontrivial.add(stable_hash(["pulse", case["unit"], repr(case["x"])]))
        if not _close(got, exp, 64):
            acc.violation("C18/sonar-pulse", f"pulse width {case['x']!r} s in {case['unit']}: got {got!r}, expected {float(exp)!r}", case, {})
    elif k == "analog":
        s, sim = S["analog"][case["unit"]]
        sim.setVoltage(case["x"])
        try:
            got = s.get()
        except Exception as ex:  # noqa
            acc.violation("C18/sonar-raised", f"MaxSonarEZAnalog.get() raised {ex!r}", case, {})
            return
        exp = Fraction(case["x"]) / Fraction("0.0049") * F["centimeter"] / F[case["unit"]]
        acc.checks += 1
        acc.ev("sonar-analog")
        if case["x"] > 0:
            acc.nontrivial.add(stable_hash(["analog", case["unit"], repr(case["x"])]))
        if not _close(got, exp, 64):
            acc.violation("C18/sonar-analog", f"voltage {case['x']!r} V in {case['unit']}: got {got!r}, expected {float(exp)!r}", case, {})
    else:
        s, sim, ctor_vcc = S["pressure"][case["sensor"]]
        if hasattr(s, "Vn"):
            del s.Vn
        vcc = case.get("vcc")
        s.voltage_in = ctor_vcc if vcc is None else vcc
        vcc = s.voltage_in
        v = case["x"]
        sim.setVoltage(v)
        try:
            got = s.pressure
        except Exception as ex:  # noqa
            acc.violation("C18/pressure-raised", f"pressure raised {ex!r} for V={v!r} Vcc={vcc!r}", case, {})
            return
        acc.ev("pressure-never-raises")
        if vcc == 0:
            acc.ev("pressure-vcc-zero")
        if vcc != 0 and math.isfinite(v) and v > 0 and math.isfinite(vcc):
            exp = 250 * Fraction(v) / Fraction(vcc) - 25
            acc.checks += 1
            if v >= 1e-5:
                acc.ev("pressure-positive")
                acc.nontrivial.add(stable_hash(["p", repr(v), repr(vcc)]))
                ok = isinstance(got, float) and abs(Fraction(got) - exp) <= Fraction(1e-12) * max(abs(exp), 25 + abs(exp))
            else:
                acc.ev("pressure-floor")
                ok = isinstance(got, float) and abs(Fraction(got) - exp) <= abs(Fraction(250 * 1e-5) / Fraction(vcc)) * Fraction(1000001, 1000000)
            if not ok:
                acc.violation("C18/pressure-value", f"V={v!r} Vcc={vcc!r}: pressure {got!r}, expected {float(exp)!r}", case, {})
        p = case.get("cal")
        if p is not None and math.isfinite(v):
            try:
                s.calibrate(p)
                got = s.pressure
            except Exception as ex:  # noqa
                acc.violation("C18/pressure-raised", f"calibrate({p!r}) / pressure raised {ex!r} at V={v!r}", case, {})
                return
            finally:
                pass
            acc.checks += 1
            acc.ev("calibrate-roundtrip")
            if not (isinstance(got, float) and abs(got - p) <= 1e-9 * max(1.0, abs(p))):
                acc.violation("C18/calibrate", f"after calibrate({p!r}) at V={v!r} the sensor reports {got!r}", case, {})
            # leave the sensor uncalibrated for the next case
            if hasattr(s, "Vn"):
                del s.Vn


def gen_sensor_case(rng):
    r = rng.random()
    sensor_objects()
    unit = rng.choice(list(F))
    if r >= 0.3 and unit not in ("meter", "centimeter", "foot", "inch"):
        unit = rng.choice(["meter", "centimeter", "foot", "inch"])        # only pulse-width sensors exist for user-defined units
    if r < 0.3:
        x = rng.choice([0.0, 0.000147, 1e-6, 0.03, rng.uniform(0, 0.06), 10 ** rng.uniform(-7, 0)])
        return {"kind": "pulse", "unit": unit, "x": x}
    if r < 0.6:
        x = rng.choice([0.0, 0.0049, 5.0, rng.uniform(0, 5), 10 ** rng.uniform(-6, 1), rng.randrange(4096) * 5 / 4096])
        return {"kind": "analog", "unit": unit, "x": x}
    v = rng.choice([rng.uniform(0, 5), rng.uniform(0, 5), 10 ** rng.uniform(-8, 1), 0.0, -1.0, 1e-5, 9.9e-6, 5e-6, float("inf"),
                    rng.randrange(4096) * 5 / 4096])
    vcc = rng.choice([None, None, 5, 5.0, 3.3, 12, rng.uniform(0.5, 15), 0, 0.0, -5.0, 1e-3])
    cal = rng.choice([None, 0, 0.0, 50, 60.0, rng.uniform(0, 200), 10 ** rng.uniform(-6, 6)])
    return {"kind": "pressure", "sensor": rng.randrange(3), "x": v, "vcc": vcc, "cal": cal}


def gen_sensor_seq(rng, n):
    """n sensor cases; a sonar now and then sees exactly the raw reading another sonar (other unit, other class) just had."""
    prev = None
    for i in range(n):
        case = gen_sensor_case(rng)
        case["mode"] = "sensors"
        if case["kind"] in ("pulse", "analog"):
            if prev is not None and rng.random() < 0.3:
                case["x"] = prev
                case["same_raw_as_previous_sonar"] = True
            prev = case["x"]
        yield case


def run_shard(spec):
    import hal.simulation as hs
    hs.pauseTiming()          # several readings at one FPGA timestamp (simulated time only moves when a case moves it)
    rng = random.Random(spec["seed"])
    acc = Acc()
    if spec["mode"] == "units":
        from robotpy_ext.common_drivers import units as U
        c = run_units_case(acc, U, {"mode": "units", "kind": "triples", "cseed": 0, "plan": []})
        acc.extra["exhaustive"] = True
        acc.extra["exhaustive_space"] = "64 ordered triples of the four defined units x 20 values"
        # "chains of any depth": far deeper than the interpreter's recursion limit (factors pair up, so values stay in range)
        for depth in (1100, 2600, 5200):
            parent, plan = rng.randrange(0, 4), []
            for j in range(depth):
                plan.append([parent, (2.0, 0.5, 0.25, 4.0)[(j + (j // 2) % 2 * 2) % 4] if j % 7 else (2.0, 0.5)[j // 7 % 2]])
                parent = 4 + j
            vd = {"mode": "units", "kind": "chains", "cseed": rng.randrange(1 << 30), "plan": plan, "reps": 8, "deep_only": True}
            run_units_case(acc, U, vd)
        # 120 nested 1/1000 sub-units: the factor to the ultimate base is far below the smallest double, conversions between
        # neighbours (and of a unit to itself) are perfectly ordinary numbers
        parent, plan = 0, []
        for j in range(120):
            plan.append([parent, 1e-3])
            parent = 4 + j
        run_units_case(acc, U, {"mode": "units", "kind": "chains", "cseed": rng.randrange(1 << 30), "plan": plan, "reps": 10,
                                "deep_only": True})
        recent = []
        for i in range(spec["n"]):
            case = {"mode": "units", "kind": "chains", "cseed": rng.randrange(1 << 30)}
            nv = len(acc.violations)
            case = run_units_case(acc, U, case)
            for v in acc.violations[nv:]:
                # the batches of user-defined units that were created, used and released just before belong to the
                # history of this one (state kept per unit object outlives the object)
                v["case"] = dict(case, history=list(recent))
            recent.append({"cseed": case["cseed"], "plan": case["plan"]})
            del recent[:-6]
            if i == 0:
                acc.samples.append({"mode": "units", "user_chain_plan": case["plan"]})
    else:
        for i, case in enumerate(gen_sensor_seq(rng, spec["n"])):
            case["hist"] = [spec["seed"], i]
            run_sensor_case(acc, case)
            if i < 2:
                acc.samples.append({k: repr(v) for k, v in case.items()})
    return acc.result()


def replay(pid, case):
    import hal.simulation as hs
    hs.pauseTiming()
    acc = Acc()
    if case["mode"] == "units":
        from robotpy_ext.common_drivers import units as U
        for h in case.get("history", ()):
            run_units_case(Acc(), U, {"mode": "units", "kind": "chains", "cseed": h["cseed"], "plan": h["plan"]})
        run_units_case(acc, U, case)
    else:
        if "hist" in case:
            # first behind the sensor cases that preceded it in its shard (running it alone first could itself leave
            # state behind in the drivers), then alone
            seed, idx = case["hist"]
            for c in gen_sensor_seq(random.Random(seed), idx):
                run_sensor_case(Acc(), c)
            run_sensor_case(acc, case)
            if acc.violations:
                acc.violations[0]["detail"] = dict(acc.violations[0].get("detail") or {},
                                                   replayed=f"behind the {idx} sensor cases generated before it from shard seed {seed}")
                return acc.violations[0]
            acc = Acc()
        run_sensor_case(acc, case)
    return acc.violations[0] if acc.violations else None
