"""C01 C02 C03 C04 C13 - StateMachine / AutonomousStateMachine under generated shapes and histories.

Generated subclasses of the real magicbot.StateMachine are driven through the public API under the
paused HAL-simulator clock; every state-function invocation, every done() and the values of
is_executing / current_state (attribute and NetworkTables topic) are recorded at the boundary and
compared online with the reference model in sm_model (C01-C04) or with a lock-step plain
StateMachine twin plus absolute rules (C13).
"""
from __future__ import annotations

import itertools
import random
import sys

from .common import Acc, stable_hash
from . import sm_model
from .sm_model import ANY, GRID, Model, NeedChoice

PROPERTIES = {"C01": "which state functions run", "C02": "timed states", "C03": "arguments",
              "C04": "stop/reset", "C13": "AutonomousStateMachine"}

RULE = {
    "C01": "random machine shapes (1-6 states; state/timed/default, must_finish, next links, inheritance+overrides) x "
           "online-generated histories of engage variants / done / on_disable / execute with scripted in-state "
           "next_state / next_state_now / done and 5 clock patterns; non-trivial = has >=1 unengaged iteration while "
           "running and >=1 of {must_finish continuation, default fallback, next_state_now chain}; distinct = hash of "
           "(shape, script, concrete op list); 30% of the cases of every population use arbitrary ordered parameter subsets, "
           "diamond hierarchies, a sibling instance of the same class and already-instantiated base classes",
    "C02": "same generator biased to timed chains/cycles, continuous engagement, boundary-exact clock steps (landing on "
           "expiry, +-1us, 1/64 s grid for strict verdicts), long pauses, NT-edited and pre-existing durations; "
           "non-trivial = >=2 timed entries reached by expiry and >=1 exact landing or long pause; distinct as C01",
    "C03": "same generator with each state function declaring one of the 16 ordered subsets of (tm,state_tm,"
           "initial_call); every declared parameter is compared (type and value) with the model; non-trivial = >=3 "
           "distinct entry kinds observed with initial_call True followed by False; distinct as C01",
    "C04": "same generator biased to stop causes (external done, on_disable, disengagement, last-state expiry engaged "
           "and unengaged, in-state done) with half of the shapes having a default state; non-trivial = >=2 distinct "
           "stop causes and >=1 re-engagement; distinct as C01",
    "C13": "AutonomousStateMachine shapes driven by on_enable / on_iteration / on_disable histories over 1-4 "
           "periods, compared call-by-call with a plain StateMachine twin that is engaged before every iteration, plus "
           "absolute rules (nothing after the end, a last timed state never called past first call + duration, argument "
           "types, first call after on_enable); non-trivial = machine ended (done or expiry) and >=1 post-end iteration or "
           "second period; distinct as C01",
}

REQUIRED = {
    "C01": {"object-used-for-100000-iterations": 1, "clock-moves-between-engage-and-execute": 1000, "verbose-logging-on": 500, "disengage-stop": 50, "must_finish-continue": 50, "default-fallback": 50, "now-chain": 50,
            "op-engage-force": 20, "op-engage-initial": 20, "expiry-hop": 50, "in-state-done": 20,
            "iteration-with-100-or-more-nested-transitions": 3},
    "C02": {"machine-of-1100-chained-states": 1, "object-used-for-100000-iterations": 1, "clock-moves-between-engage-and-execute": 1000, "verbose-logging-on": 500, "expiry-hop": 100, "expiry-finish-stop": 20, "cycle-restart": 100, "exact-landing-strict": 50,
            "tie-forked": 20, "long-pause-expiry": 20, "op-nt-write": 20, "three-consecutive-cycles": 10,
            "preexisting-duration": 10},
    "C03": {"object-used-for-100000-iterations": 1, "clock-moves-between-engage-and-execute": 1000, "verbose-logging-on": 500, "entry-by-engage": 50, "entry-by-next": 50, "entry-by-expiry": 50, "entry-by-restart": 20,
            "default-fallback": 50, "default-run": 50, "ic-false-after-true": 100, "signature-subsets-seen": 16},
    "C04": {"object-used-for-100000-iterations": 1, "clock-moves-between-engage-and-execute": 1000, "verbose-logging-on": 500, "disengage-stop": 50, "expiry-finish-stop": 20, "cycle-restart": 20, "op-done": 20, "op-on_disable": 10,
            "in-state-done": 20, "machine-start": 100, "done-required-checked": 50, "nt-current_state-checked": 1000},
    "C13": {"driver-station-auto": 500, "verbose-logging-on": 500, "auto-last-timed-state-stay-checked": 2000, "auto-ended-by-done": 20, "auto-ended-by-expiry": 20, "auto-disabled-midrun": 10, "auto-second-period": 20,
            "auto-post-end-iteration": 50, "auto-twin-compared-iteration": 500, "auto-object-used-for-160-periods": 1},
}

ASSUMPTIONS = {p: ["reference model of DESIGN.md 3.2 (sm_model.py) is a faithful reading of the statement; its don't-cares are listed there",
                   "time comparisons closer than 1us to equality on operands that are not exactly representable are ties (both outcomes accepted)"]
               for p in ("C01", "C02", "C03", "C04")}
ASSUMPTIONS["C13"] = ["twin = plain StateMachine with identical states, engaged before every iteration at the same clock values"]

NAMES = ["sa", "sb", "sc", "sd", "se", "sf"] + [f"t{i:02d}" for i in range(34)]
PARAMS = ("tm", "state_tm", "initial_call")
SUBSETS = [list(p) for r in range(4) for p in itertools.permutations(PARAMS, r)]  # 16 ordered subsets

QUICK_CASES = {"C01": 9600, "C02": 9600, "C03": 9600, "C04": 9600, "C13": 9600}
THOROUGH_SHARDS = 64
THOROUGH_PER_SHARD = 6000


def shards(pid, tier, seed):
    if tier == "quick":
        n = QUICK_CASES[pid]
        k = 16
        return [{"n": n // k} for _ in range(k)] + [{"n": 2 if pid == "C13" else 1, "ultra": True}]
    extra = [{"n": 3 if pid == "C13" else 2, "ultra": True} for _ in range(4)]      # objects that each live through 160 autonomous periods / 100 000 iterations
    return [{"n": THOROUGH_PER_SHARD} for _ in range(THOROUGH_SHARDS)] + extra


# ----------------------------------------------------------------------------- generator
def gen_case(rng: random.Random, pid: str, uid: str) -> dict:
    auto = pid == "C13"
    n = rng.choice([1, 2, 2, 3, 3, 3, 4, 4, 5, 6]) if rng.random() > 0.004 else rng.choice([34, 40])      # (rarely: a big machine)
    names = NAMES[:n]
    long_chain = rng.random() < 0.0015
    if long_chain:
        # a scripted sequence: 1100 short timed steps, each linked to the next one
        n = 1100
        names = [f"q{i:04d}" for i in range(n)]
    grid = rng.random() < (0.45 if pid == "C02" else 0.3)
    if grid:
        period = GRID * rng.choice([1, 1, 2, 4])
    else:
        period = rng.choice([20000, 20000, 5000, 50000, 10000, 1000])
    p_timed = {"C02": 0.8, "C13": 0.6}.get(pid, 0.5)
    p_mf = {"C01": 0.4}.get(pid, 0.25)
    p_default = {"C04": 0.5, "C13": 0.15, "C01": 0.45}.get(pid, 0.35)
    chain = rng.random() < (0.6 if pid in ("C02", "C13") else 0.3)
    if long_chain:
        chain, p_timed = True, 1.0

    def gen_dur():
        r = rng.random()
        if grid:
            k = rng.choice([0, 1, 1, 2, 3, 4, 6, 8, 13, 20]) if r < 0.9 else 64
            return GRID * k * rng.choice([1, 1, 2])
        if r < 0.05:
            return 0
        if r < 0.2:
            return rng.randrange(1, period)           # shorter than a loop period
        if r < 0.6:
            return period * rng.randrange(1, 9)       # whole periods: lands exactly
        if r < 0.9:
            return rng.randrange(period, 12 * period)
        return rng.choice([1000000, 500000, 250000]) if rng.random() > 0.05 else rng.choice([3 * 10 ** 9, 61 * 10 ** 6])   # (rarely: many minutes)

    first = 0 if rng.random() < 0.8 else rng.randrange(n)
    states = []
    for i, nm in enumerate(names):
        timed = rng.random() < p_timed
        st = {"name": nm, "kind": "timed" if timed else "state", "first": i == first,
              "must_finish": rng.random() < p_mf, "next": None, "next_as_obj": False,
              "sig": list(PARAMS), "doc": rng.choice([None, f"doc of {nm}", f"  {nm}: multi\n  line  "])}
        if timed:
            d = gen_dur()
            st["dur_us"] = d
            st["dur_int"] = d % 1000000 == 0 and rng.random() < 0.5
            if chain:
                st["next"] = names[i + 1] if i + 1 < n else (None if rng.random() < 0.75 else names[0])
            else:
                st["next"] = None if rng.random() < 0.3 else rng.choice(names)
        states.append(st)
    if chain and not any(s["kind"] == "timed" for s in states):
        states[-1]["kind"] = "timed"
        states[-1]["dur_us"] = gen_dur()
        states[-1]["dur_int"] = False
    has_default = rng.random() < p_default
    if has_default:
        states.insert(rng.randrange(len(states) + 1),
                      {"name": "dflt", "kind": "default", "first": False, "must_finish": False, "next": None,
                       "next_as_obj": False, "sig": list(PARAMS), "doc": None})
    if pid == "C03" or rng.random() < 0.3:
        # any ordered subset of (tm, state_tm, initial_call), e.g. (self, initial_call, tm)
        for st in states:
            st["sig"] = rng.choice(SUBSETS)
            st["sig_defaults"] = rng.random() < 0.15        # the parameters are declared with default values
    # ---- class layout: single class, or base + sub with additions and overrides
    classes = [{"name": "K0", "bases": [], "states": states}]
    if rng.random() < 0.3 and len(states) >= 2:
        k = rng.randrange(1, len(states))
        base_states = [dict(s) for s in states[:k]]
        sub_states = [dict(s) for s in states[k:]]
        # overrides: the base carries a *different* definition of some states that the subclass redefines
        for s in list(sub_states):
            if s["kind"] != "default" and rng.random() < 0.4:
                b = dict(s)
                flip = rng.random()
                if flip < 0.4 and b["kind"] == "timed":
                    b["dur_us"] = gen_dur()
                    b["dur_int"] = False
                elif flip < 0.6 and b["kind"] == "timed":
                    b["kind"] = "state"
                    b.pop("dur_us", None)
                    b["next"] = None
                elif flip < 0.8 and b["kind"] == "state":
                    b["kind"] = "timed"
                    b["dur_us"] = gen_dur()
                    b["dur_int"] = False
                    b["next"] = rng.choice([None] + names)
                b["must_finish"] = rng.random() < 0.3
                b["overridden"] = True
                base_states.append(b)
        r_shape = rng.random()
        if r_shape < 0.3 and len(sub_states) >= 1:
            # diamond: K0 <- K1, K0 <- K2, K3(K1, K2) or K3(K2, K1).  The redefinitions of K0's states are spread over
            # the two middle classes; whichever order the final class lists them in, a redefinition beats K0's version
            redefs = [x for x in sub_states if any(b["name"] == x["name"] for b in base_states)]
            fresh = [x for x in sub_states if x not in redefs]
            cut = rng.randrange(0, len(redefs) + 1)
            mids = [{"name": "K1", "bases": ["K0"], "states": redefs[:cut]},
                    {"name": "K2", "bases": ["K0"], "states": redefs[cut:]}]
            classes = [{"name": "K0", "bases": [], "states": base_states}] + mids + \
                      [{"name": "K3", "bases": rng.choice([["K1", "K2"], ["K2", "K1"]]), "states": fresh}]
        elif r_shape < 0.5:
            # mix-in style: the base is split once more
            classes = [{"name": "K0", "bases": [], "states": base_states},
                       {"name": "K1", "bases": ["K0"], "states": []},
                       {"name": "K2", "bases": ["K1"], "states": sub_states}]
        else:
            classes = [{"name": "K0", "bases": [], "states": base_states},
                       {"name": "K1", "bases": ["K0"], "states": sub_states}]
    # next given as state object where the target is already defined in the same class body
    for c in classes:
        seen = set()
        for s in c["states"]:
            if s.get("next") in seen and rng.random() < 0.3:
                s["next_as_obj"] = True
            seen.add(s["name"])
    # ---- script of in-state actions
    p_act = {"C02": 0.03, "C13": 0.06}.get(pid, 0.1)
    script = {}
    for nm in names:
        acts = []
        for _ in range(rng.choice([5, 20, 60])):
            if rng.random() < p_act:
                r = rng.random()
                if r < 0.5:
                    acts.append(["next", rng.choice(names), rng.random() < 0.3])
                elif r < 0.75:
                    acts.append(["now", rng.choice(names), rng.random() < 0.3])
                else:
                    acts.append(["done"])
            else:
                acts.append(None)
        script[nm] = acts
    if long_chain:
        script = {nm: (acts[:3] if i_ % 50 == 0 else []) for i_, (nm, acts) in enumerate(script.items())}
    marathon = rng.random() < 0.004 and not auto
    if (marathon or rng.random() < 0.03) and len(names) >= 2:
        # a state that hands over with next_state_now() EVERY time it runs, for as long as the case runs (the scripts repeat)
        a_, b_ = rng.sample(names, 2)
        script[a_] = [["now", b_, False]] * len(script[a_])
        script[b_] = ([["next", a_, False]] if marathon else [None]) * len(script[b_])     # (marathon: ... and comes back, forever)
        if marathon:
            for nm_ in names:
                if nm_ not in (a_, b_):
                    script[nm_] = [["next", a_, False]] * len(script[nm_])          # wherever the machine starts, it ends up in the cycle
        script["__cyclic__"] = True
    backlog = 0
    if not marathon and "__cyclic__" not in script and rng.random() < 0.012 and len(names) >= 2:
        # a backlog worked off inside ONE iteration: two or three states hand over to each other with next_state_now()
        # K times each (a chain of 2K..3K nested transitions; the library itself copes with about 240), then carry on
        backlog = rng.choice([8, 30, 51, 53, 60])
        cyc = rng.sample(names, rng.choice([2, 2, 3]) if len(names) >= 3 else 2)
        if len(cyc) == 3:
            backlog = min(backlog, 40)
        for i_, nm_ in enumerate(cyc):
            script[nm_] = [["now", cyc[(i_ + 1) % len(cyc)], False]] * backlog + script[nm_][:20]
    always_disable = False
    if auto and rng.random() < 0.2:
        # done() followed at once by next_state_now(x): done() has the last word.  x is never a must_finish state - what a
        # machine that was just told to stop owes a must_finish state is not in any statement
        eff_mf = {n for n, d in effective_shape({"classes": classes, "final": classes[-1]["name"]}).items() if d.get("must_finish")}
        targets = [n for n in names if n not in eff_mf]
        for nm in names:
            for i, a in enumerate(script[nm]):
                if targets and a and a[0] == "done" and rng.random() < 0.7:
                    script[nm][i] = ["done_now", rng.choice(targets), False]
                    always_disable = True
    pre_nt = {}
    for s in states:
        if s["kind"] == "timed" and rng.random() < 0.08:
            pre_nt[s["name"]] = gen_dur() if not s["dur_int"] else rng.choice([0, 1000000, 2000000])
    if n > 32:
        # a big machine: states far down the list re-enter themselves with next_state() now and then
        for nm in names[30:]:
            script[nm] = [(["next", nm, False] if rng.random() < 0.3 else a) for a in script[nm]]
    verbose = rng.choice([None, None, True, False])
    ds_state = rng.choice([None, "auto", "auto", "teleop", "disabled"]) if auto else None
    return {"uid": uid, "pid": pid, "marathon": marathon, "backlog": backlog, "long_chain": long_chain, "verbose": verbose, "ds": ds_state, "auto": auto, "grid": grid, "period": period, "classes": classes,
            "final": classes[-1]["name"], "script": script, "pre_nt": pre_nt, "sibling": (not auto) and rng.random() < 0.25,
            "instantiate_bases": len(classes) > 1 and rng.random() < 0.5,
            "always_disable": always_disable,
            "hseed": rng.randrange(1 << 30), "ops": None}


def spec_mro(case, name=None):
    """C3 linearisation (Python's method resolution order) of the generated class specs."""
    classes = {c["name"]: c for c in case["classes"]}

    def lin(n):
        bases = classes[n]["bases"]
        seqs = [lin(b) for b in bases] + [list(bases)]
        res = [n]
        while any(seqs):
            for sq in seqs:
                if sq and not any(sq[0] in t[1:] for t in seqs):
                    cand = sq[0]
                    break
            else:
                raise ValueError("inconsistent hierarchy")
            res.append(cand)
            for sq in seqs:
                if sq and sq[0] == cand:
                    del sq[0]
        return res
    return [classes[n] for n in lin(name or case["final"])]


def effective_shape(case):
    """name -> effective definition: the first class in the MRO that defines the name wins."""
    eff = {}
    for c in spec_mro(case):
        for s in c["states"]:
            eff.setdefault(s["name"], s)
    return eff


# ----------------------------------------------------------------------------- building real classes
_FN_CACHE = {}


class _NotFilled:
    """Default value of a declared parameter: seen by the state function only if the framework did not pass the argument."""

    def __repr__(self):
        return "<parameter not filled in>"


_NOT_FILLED = _NotFilled()


def _make_fn(name, sig, defaults=False):
    key = (name, tuple(sig), defaults)
    f = _FN_CACHE.get(key)
    if f is None:
        # (defaults: `def fire(self, tm=None, initial_call=False)` - legal Python; the framework fills the parameters all the same)
        params = ", ".join(["self"] + [f"{p}=_NOT_FILLED" if defaults else p for p in sig])
        d = ", ".join(f"'{p}': {p}" for p in sig)
        src = f"def {name}({params}):\n    _vf_body(self, '{name}', {{{d}}})\n"
        ns = {"_vf_body": _vf_body, "_NOT_FILLED": _NOT_FILLED}
        exec(src, ns)
        f = ns[name]
        _FN_CACHE[key] = f
    # a fresh function object per use (decorators keep references / docstrings differ)
    import types
    g = types.FunctionType(f.__code__, f.__globals__, name, f.__defaults__, f.__closure__)
    return g


def _vf_body(self, name, args):
    self._vf_log.append(("state", name, args))
    cnt = self._vf_counts
    i = cnt.get(name, 0)
    cnt[name] = i + 1
    sc = self._vf_script.get(name)
    if sc and self._vf_script.get("__cyclic__"):
        act = sc[i % len(sc)]
    else:
        act = sc[i] if sc and i < len(sc) else None
    if act:
        k = act[0]
        if k == "done":
            self._vf_log.append(("user_done", name))
            self.done()
        elif k == "done_now":
            # (C13 only) the state ends the machine and then asks for another state at once: done() has the last word
            self._vf_log.append(("user_done", name))
            self.done()
            self.next_state_now(act[1])
        else:
            tgt = getattr(type(self), act[1]) if act[2] else act[1]
            if k == "next":
                self._vf_log.append(("user_next", name, act[1]))
                self.next_state(tgt)
            else:
                self._vf_log.append(("now", name, act[1]))
                self.next_state_now(tgt)


def build_class(case, base_cls, suffix=""):
    from magicbot.state_machine import state, timed_state, default_state
    built = {}
    holder = {}
    for c in case["classes"]:
        body = {}
        for s in c["states"]:
            f = _make_fn(s["name"], s["sig"], bool(s.get("sig_defaults")))
            f.__doc__ = s.get("doc")
            if s["kind"] == "default":
                obj = default_state(f)
            elif s["kind"] == "timed":
                d = s["dur_us"] // 1000000 if s.get("dur_int") else s["dur_us"] / 1e6
                nxt = s["next"]
                if nxt is not None and s.get("next_as_obj") and nxt in body:
                    nxt = body[nxt]
                obj = timed_state(duration=d, next_state=nxt, first=s["first"], must_finish=s["must_finish"])(f)
            else:
                if not s["first"] and not s["must_finish"] and stable_hash(s["name"]) % 2:
                    obj = state(f)          # bare decorator form
                else:
                    obj = state(first=s["first"], must_finish=s["must_finish"])(f)
            body[s["name"]] = obj
        bases = tuple(built[b] for b in c["bases"]) or (base_cls,)
        if c["name"] == case["final"] and case.get("verbose") is not None:
            body["VERBOSE_LOGGING"] = case["verbose"]      # the documented switch for state-change log lines
        if c["name"] == case["final"]:
            def done(self, _h=holder):
                self._vf_log.append(("done",))
                super(_h["cls"], self).done()
            body["done"] = done
        cls = type(c["name"] + suffix, bases, body)
        built[c["name"]] = cls
        if case.get("instantiate_bases") and c["name"] != case["final"]:
            # a base class that is a legal machine of its own is instantiated (and bound) before the class under test
            # exists ("a robot has both the generic and the specialised mechanism"): whatever that leaves behind on
            # the base class must not show in the subclass
            beff = {}
            for cc in spec_mro(case, c["name"]):
                for s in cc["states"]:
                    beff.setdefault(s["name"], s)
            if sum(1 for s in beff.values() if s["first"]) == 1 and sum(1 for s in beff.values() if s["kind"] == "default") <= 1:
                try:
                    import logging
                    from magicbot.magic_tunable import setup_tunables
                    b = cls()
                    b.logger = logging.getLogger("vfbase")
                    b._vf_log, b._vf_counts, b._vf_script = [], {}, {}
                    setup_tunables(b, f"{case['uid']}b{c['name']}")
                    b.engage()
                    b.execute()
                    b.done()
                    BASE_INSTANCES.append(b)
                except Exception:  # noqa  (a base that cannot run alone is simply not used)
                    pass
    holder["cls"] = built[case["final"]]
    return holder["cls"]


BASE_INSTANCES = []


class Machine:
    """One real machine instance with its log and NetworkTables side channels."""

    def __init__(self, case, base_cls, nt_name, cls=None):
        import ntcore
        from magicbot.magic_tunable import setup_tunables
        self.inst = ntcore.NetworkTableInstance.getDefault()
        self.name = nt_name
        self.eff = effective_shape(case)
        self.pubs = {}
        self.handles = []
        if cls is None:
            cls = build_class(case, base_cls)
        self.cls = cls
        self.log = []
        # pre-existing duration values (writeDefault is False for durations: they must survive setup)
        for nm, us in case["pre_nt"].items():
            if nm in self.eff and self.eff[nm]["kind"] == "timed":
                self._pub(nm).set(self._val(nm, us))
        m = cls()
        import logging
        m.logger = logging.getLogger(nt_name)   # MagicRobot injects one into every component
        m._vf_log = self.log
        m._vf_counts = {}
        m._vf_script = case["script"]
        setup_tunables(m, nt_name)
        self.m = m
        self.sub = self.inst.getStringTopic(f"/components/{nt_name}/state/current_state").subscribe("<unset>")
        self.handles.append(self.sub)

    def _val(self, nm, us):
        return us // 1000000 if self.eff[nm].get("dur_int") else us / 1e6

    def _pub(self, nm):
        p = self.pubs.get(nm)
        if p is None:
            key = f"/components/{self.name}/state/{nm}_duration"
            if self.eff[nm].get("dur_int"):
                p = self.inst.getIntegerTopic(key).publish()
            else:
                p = self.inst.getDoubleTopic(key).publish()
            self.pubs[nm] = p
        return p

    def nt_write(self, nm, us):
        self._pub(nm).set(self._val(nm, us))

    def close(self):
        for b in BASE_INSTANCES:
            for e in getattr(b, "_tunables", {}).values():
                e.close()
        del BASE_INSTANCES[:]
        for h in self.handles:
            h.close()
        for p in self.pubs.values():
            p.close()
        for e in getattr(self.m, "_tunables", {}).values():
            e.close()


# ----------------------------------------------------------------------------- comparison
def _typed_close(v, us):
    return type(v) is float and abs(v - us / 1e6) <= sm_model.TOL


def compare(pred, obs_calls, n_done, now, member_after, auto):
    """Returns (list of divergences, resolved dzero).  obs_calls: list of (name, args)."""
    calls = pred.calls
    variants = [calls]
    if any(c.get("optional") for c in calls):
        variants.append([c for c in calls if not c.get("optional")])
    best = None
    for cs in variants:
        div = _compare_calls(pred, cs, obs_calls, now, member_after)
        if best is None or len(div) < len(best):
            best = div
        if not div:
            break
    div = list(best)
    if pred.must_done and n_done < 1:
        div.append({"kind": "done-missing", "props": {"C04"}, "detail": "machine stopped (or restarted) without done() being invoked"})
    return div


def _compare_calls(pred, calls, obs_calls, now, m_after):
    div = []
    pn = [c["name"] for c in calls]
    on = [o[0] for o in obs_calls]
    if pn != on:
        preg = [c["name"] for c in calls if c["kind"] == "regular"]
        dname = pred.default_name
        oreg = [x for x in on if x != dname]
        props = set()
        if bool(preg) != bool(oreg):
            # a regular state ran although the machine must be stopped / did not run although it must
            props = {"C01"}
            if oreg and pred.stopped_before:
                props.add("C04")
        elif preg and preg[0] != oreg[0]:
            # the wrong state ran (expiry decisions are adopted from the implementation, so this is not timing)
            props = {"C04"}
        elif preg == oreg:
            props = {"C01"}         # only the default state's presence differs
        # same first state, different continuation of a next_state_now chain: decided by the direct count rule
        div.append({"kind": "fn-seq", "props": props,
                    "detail": f"expected state functions {pn}, observed {on}"})
        return div
    for c, (name, args) in zip(calls, obs_calls):
        if c["kind"] == "regular":
            if "tm" in args and not _typed_close(args["tm"], c["tm"]):
                props = {"C03"}
                if c.get("start"):
                    props.add("C04")
                div.append({"kind": "tm", "props": props,
                            "detail": f"{name}: tm expected {c['tm'] / 1e6!r}, got {args['tm']!r}"})
            if "state_tm" in args and not _typed_close(args["state_tm"], c["state_tm"]):
                props = {"C03"}
                if c.get("by") in ("expiry", "restart") or (type(args["state_tm"]) is float and args["state_tm"] < 0):
                    props.add("C02")
                div.append({"kind": "state_tm", "props": props,
                            "detail": f"{name}: state_tm expected {c['state_tm'] / 1e6!r}, got {args['state_tm']!r} (entered by {c.get('by')})"})
            if "initial_call" in args and args["initial_call"] is not c["ic"]:
                props = {"C03"}
                if c.get("start"):
                    props.add("C04")
                div.append({"kind": "initial_call", "props": props,
                            "detail": f"{name}: initial_call expected {c['ic']!r}, got {args['initial_call']!r} (entered by {c.get('by')})"})
        else:
            # default state: tm unspecified; initial_call / state_tm per section 3.2 step 4
            ic = c["ic"]
            if "initial_call" in args:
                if type(args["initial_call"]) is not bool:
                    div.append({"kind": "initial_call", "props": {"C03"}, "detail": f"{name}: initial_call is {args['initial_call']!r}"})
                    continue
                if ic is ANY:
                    ic = args["initial_call"]
                elif args["initial_call"] is not ic:
                    div.append({"kind": "initial_call", "props": {"C03"},
                                "detail": f"default state {name}: initial_call expected {ic!r}, got {args['initial_call']!r}"})
                    continue
            if "tm" in args and type(args["tm"]) is not float:
                div.append({"kind": "tm", "props": {"C03"}, "detail": f"{name}: tm is {args['tm']!r}"})
            if "state_tm" in args:
                v = args["state_tm"]
                if type(v) is not float:
                    div.append({"kind": "state_tm", "props": {"C03"}, "detail": f"{name}: state_tm is {v!r}"})
                    continue
                allowed_init = [0]
                if c.get("since_exp") is not None:
                    allowed_init.append(c["since_exp"])
                cont = None if c["dzero"] is None else now - c["dzero"]
                ok_init = any(abs(v - a / 1e6) <= sm_model.TOL for a in allowed_init)
                ok_cont = cont is not None and abs(v - cont / 1e6) <= sm_model.TOL
                if ic is True and not ok_init:
                    div.append({"kind": "state_tm", "props": {"C03"},
                                "detail": f"default state {name}: state_tm on initial call expected one of {[a / 1e6 for a in allowed_init]}, got {v!r}"})
                elif ic is False and not ok_cont:
                    div.append({"kind": "state_tm", "props": {"C03"},
                                "detail": f"default state {name}: state_tm expected {None if cont is None else cont / 1e6!r}, got {v!r}"})
                elif ic is ANY and not (ok_init or ok_cont):
                    div.append({"kind": "state_tm", "props": {"C03"},
                                "detail": f"default state {name}: state_tm {v!r} is neither a fresh entry nor a continuation"})
                else:
                    if ic is True or (ic is ANY and ok_init and not ok_cont):
                        m_after.dzero = now - round(v * 1e6)
            elif ic is True:
                m_after.dzero = None   # cannot be observed; never compared either (signature is fixed)
    return div


# ----------------------------------------------------------------------------- driver (model-checked machines)
class Driver:
    def __init__(self, case, acc: Acc, verbose=False):
        import wpilib
        import hal.simulation as hs
        from magicbot.state_machine import StateMachine, AutonomousStateMachine
        self.case = case
        self.pid = case["pid"]
        self.acc = acc
        self.hs = hs
        self.now_us = wpilib.RobotController.getFPGATime
        self.eff = effective_shape(case)
        self.auto = case["auto"]
        self.trace = [] if verbose else None
        self.stats = {"stop_causes": set(), "reengaged": 0, "unengaged_running_iter": 0, "mf_or_default_or_now": 0,
                      "expiry_entries": 0, "exact_or_pause": 0, "entry_kinds_tf": set(), "cycles_run": 0}
        self.events = {}
        if case["grid"]:
            r = self.now_us() % GRID
            if r:
                hs.stepTimingAsync(GRID - r)
        self.mach = Machine(case, AutonomousStateMachine if self.auto else StateMachine, case["uid"])
        # a second, unchecked instance of the very same class, driven in between: whatever it does must not show in the
        # checked instance ("two shooters on one robot")
        self.sib = Machine(case, StateMachine, case["uid"] + "s", cls=self.mach.cls) if case.get("sibling") else None
        shape = {n: {"kind": s["kind"], "must_finish": s["must_finish"], "next": s.get("next"), "first": s["first"]}
                 for n, s in self.eff.items()}
        self.model = Model(shape, auto=self.auto, grid=case["grid"])
        self.dur = {}
        for n, s in self.eff.items():
            if s["kind"] == "timed":
                self.dur[n] = case["pre_nt"].get(n, s["dur_us"])
                if n in case["pre_nt"]:
                    self.ev("preexisting-duration")
        self.consec_cycles = 0
        self.violation = None
        self.done_after_engage = False

    def ev(self, k, n=1):
        self.events[k] = self.events.get(k, 0) + n

    # ---- apply one concrete op; returns False when the case must end (divergence)
    def apply(self, op):
        try:
            with _bounded():
                return self._apply(op)
        except _Stuck as e:
            return self._diverge([{"kind": "did-not-return", "props": {"C01", "C02", "C03", "C04"},
                                   "detail": f"{op[0]} did not return ({e})"}], op)

    def _apply(self, op):
        m = self.mach.m
        k = op[0]
        log = self.mach.log
        del log[:]
        if k == "adv":
            if op[1] > 0:
                self.hs.stepTimingAsync(op[1])
            return True
        if k == "nt":
            self.mach.nt_write(op[1], op[2])
            self.dur[op[1]] = op[2]
            self.ev("op-nt-write")
            return True
        if k == "sib":
            try:
                if op[1] == "engage":
                    self.sib.m.engage()
                else:
                    getattr(self.sib.m, op[1])()
            except Exception as e:  # noqa
                return self._diverge([{"kind": "raised", "props": {"C01", "C02", "C03", "C04"},
                                       "detail": f"sibling instance: {op[1]} raised {e!r}"}], op)
            self.ev("sibling-instance-op")
            return True
        now = self.now_us()
        exc = None
        if k == "engage":
            kw = {}
            if op[1] is not None:
                kw["initial_state"] = getattr(type(m), op[1]) if op[3] else op[1]
            if op[2]:
                kw["force"] = True
            was_stopped = all(mm.cur is None for mm in self.model.members)
            try:
                m.engage(**kw)
            except Exception as e:  # noqa
                exc = e
            self.model.op_engage(op[1], op[2])
            self.done_after_engage = False
            if op[2]:
                self.ev("op-engage-force")
            if op[1] is not None and (op[2] or was_stopped):
                self.ev("op-engage-initial")
        elif k in ("done", "on_disable"):
            was_running = any(mm.running for mm in self.model.members)
            try:
                getattr(m, k)()
            except Exception as e:  # noqa
                exc = e
            self.model.op_done()
            self.done_after_engage = True
            self.ev("op-" + k)
            if was_running:
                self.stats["stop_causes"].add(k)
        elif k == "execute":
            return self._execute(now)
        if exc is not None:
            return self._diverge([{"kind": "raised", "props": {"C01", "C02", "C03", "C04"},
                                   "detail": f"{k} raised {exc!r}"}], op)
        return self._post_state(op)

    def _post_state(self, op):
        m = self.mach.m
        is_ex = m.is_executing
        cs = m.current_state
        nt = self.mach.sub.get()
        ok_members = []
        for mm in self.model.members:
            exp_cs = mm.cur.name if mm.cur is not None else ""
            if is_ex is mm.running and cs == exp_cs and nt == exp_cs:
                ok_members.append(mm)
        self.acc.checks += 3
        self.ev("nt-current_state-checked")
        if ok_members:
            self.model.members = ok_members
            return True
        if self.pid != "C04":
            # is_executing / current_state are C04's clauses: another property's check neither reports them nor lets
            # them end the case - it goes on judging its own clauses on what the machine does next
            self.ev("post-state-mismatch-left-to-C04")
            return True
        mm = self.model.members[0]
        exp_cs = mm.cur.name if mm.cur is not None else ""
        div = []
        if is_ex is not mm.running:
            div.append({"kind": "is_executing", "props": {"C04"},
                        "detail": f"after {op[0]}: is_executing expected {mm.running}, got {is_ex!r}"})
        if cs != exp_cs:
            div.append({"kind": "current_state", "props": {"C04"},
                        "detail": f"after {op[0]}: current_state expected {exp_cs!r}, got {cs!r}"})
        if nt != exp_cs:
            div.append({"kind": "current_state-nt", "props": {"C04"},
                        "detail": f"after {op[0]}: NetworkTables current_state expected {exp_cs!r}, got {nt!r}"})
        return self._diverge(div, op)

    def _execute(self, now):
        m = self.mach.m
        log = self.mach.log
        _set_tol(self, now)
        req_before = any(mm.req for mm in self.model.members)
        running_before = any(mm.running for mm in self.model.members)
        cs_before = m.current_state
        exc = None
        try:
            m.execute()
        except Exception as e:  # noqa
            exc = e
        if exc is not None:
            import traceback
            tb = traceback.extract_tb(exc.__traceback__)
            where = f"{tb[-1].filename.split('/')[-1]}:{tb[-1].name}" if tb else "?"
            return self._diverge([{"kind": "raised", "props": {"C01", "C02", "C03", "C04"},
                                   "detail": f"execute() raised {exc!r} at {where}"}], ["execute"])
        obs_calls = [(e[1], e[2]) for e in log if e[0] == "state"]
        n_done = sum(1 for e in log if e[0] == "done")
        dur = self.dur.__getitem__
        # ---- direct C01 clauses, judged on the observation alone
        n_now = sum(1 for e in log if e[0] == "now")
        if n_now >= 100:
            self.ev("iteration-with-100-or-more-nested-transitions")
        elif n_now >= 16:
            self.ev("iteration-with-16-or-more-nested-transitions")
        direct = []
        if req_before and not self.done_after_engage and not any(e[0] == "user_done" for e in log):
            if len(obs_calls) != 1 + n_now:
                direct.append({"kind": "fn-count", "props": {"C01"},
                               "detail": f"engage() was called and done() was not: {len(obs_calls)} state functions ran "
                                         f"({[c[0] for c in obs_calls]}) with {n_now} next_state_now() calls"})
        if not req_before:
            for name, _ in obs_calls:
                st = self.eff.get(name)
                if st is not None and st["kind"] != "default" and not st["must_finish"]:
                    direct.append({"kind": "ran-unengaged", "props": {"C01"},
                                   "detail": f"regular state {name} (not must_finish) ran in an iteration without engage()"})
                    break
        self.acc.checks += 2
        if direct and self.pid == "C01":
            return self._diverge(direct, ["execute"], obs=obs_calls, now=now)
        branches = []
        stopped_before = not running_before and not req_before
        for mm in self.model.members:
            stack = [[]]
            while stack:
                ch = stack.pop()
                try:
                    pred, m2 = self.model.simulate(mm, now, dur, self.case["script"], ch)
                except NeedChoice:
                    stack.append(ch + [1])
                    stack.append(ch + [0])
                    continue
                pred.stopped_before = stopped_before
                div = compare(pred, obs_calls, n_done, now, m2, self.auto)
                if self.pid != "C01":
                    # a difference confined to the continuation of a next_state_now() chain is decided by C01's count rule
                    div = [d for d in div if d["props"]]
                branches.append((pred, m2, div))
        self.acc.checks += 1 + 3 * len(obs_calls)
        consistent = [b for b in branches if not b[2]]          # explain everything that was observed
        obs_regular = [c for c in obs_calls if self.eff[c[0]]["kind"] != "default"]
        clean = [b for b in consistent if not b[0].c02]
        if self.pid == "C02":
            # expiry decisions were adopted from the implementation; C02 judges them.  A branch that matches a
            # non-empty observation completely identifies the implementation's timeline; an empty observation
            # identifies nothing, and then a timing explanation only counts if nothing else explains it.
            innocent = [b for b in branches if not b[0].c02 and not any("C02" in d["props"] for d in b[2])]
            if clean:
                survivors = [(b[0], b[1]) for b in clean]
            elif consistent and (obs_regular or not innocent):
                pred = consistent[0][0]
                return self._diverge([{"kind": "expiry-timing", "props": {"C02"}, "detail": pred.c02[0]}],
                                     ["execute"], pred=pred, obs=obs_calls, now=now)
            elif innocent:
                for d in innocent[0][2]:
                    self.ev("divergence-" + d["kind"])
                self.ev("divergence-owned-by-other-property" if innocent[0][2] else "ambiguous-empty-observation")
                return False
            else:
                pred, _, div = min(branches, key=lambda b: len(b[2]))
                div = div or [{"kind": "expiry-timing", "props": {"C02"}, "detail": pred.c02[0]}]
                return self._diverge(div, ["execute"], pred=pred, obs=obs_calls, now=now)
        elif consistent:
            # other properties are judged on the implementation's own timeline, whatever C02 thinks of it
            if not clean:
                self.ev("timing-adopted-against-C02")
            survivors = [(b[0], b[1]) for b in consistent]
            survivors.sort(key=lambda x: len(x[0].c02))
        else:
            if self.pid == "C04" and branches and all(b[0].stop_predicted for b in branches):
                # whatever else went wrong in this call (e.g. a state ran that should not have - C01's business), every
                # reading of the statements says the machine had to stop here: C04's obligations apply to what is observable
                is_ex, cs = m.is_executing, m.current_state
                self.acc.checks += 3
                if n_done < 1 or is_ex is not False or cs != "":
                    return self._diverge([{"kind": "stop-obligations", "props": {"C04"},
                                           "detail": f"the machine had to stop in this iteration (engage() no longer called outside a must_finish "
                                                     f"state / last state expired): done() invoked {n_done} times, is_executing={is_ex!r}, "
                                                     f"current_state={cs!r}"}], ["execute"], pred=branches[0][0], obs=obs_calls, now=now)
            # no reading of the statements explains the observation.  It is evidence against this property only
            # if every branch diverges in one of this property's clauses.
            mine = [b for b in branches if any(self.pid in d["props"] for d in b[2])]
            if len(mine) < len(branches):
                other = [b for b in branches if b not in mine][0]
                for d in other[2]:
                    self.ev("divergence-" + d["kind"])
                self.ev("divergence-owned-by-other-property")
                return False
            pred, _, div = min(branches, key=lambda b: len(b[2]))
            return self._diverge(div, ["execute"], pred=pred, obs=obs_calls, now=now)
        pred = survivors[0][0]
        members, seen = [], set()
        for _, m2 in survivors:
            c = m2.cur
            key = (m2.running, m2.req, m2.origin, m2.last_default, m2.dzero, m2.dflt_any, m2.grid_ok,
                   None if c is None else (c.name, c.has_run, c.s, c.pend, c.d, c.by),
                   tuple(sorted(m2.counts.items())))
            if key not in seen:
                seen.add(key)
                members.append(m2)
        if len(members) > 64:
            # too many unobservable ties (e.g. parameter-less states landing on every expiry): no verdict
            self.ev("case-abandoned-too-many-branches")
            return False
        if len(members) > 1:
            self.ev("iterations-with-several-model-branches")
        self.model.members = members
        # ---- direct C04 clause: the state that ran is the one current_state named (when no expiry/start logic interferes)
        # ---- evidence bookkeeping (from the surviving prediction)
        for e in pred.events:
            self.ev(e)
        if pred.must_done:
            self.ev("done-required-checked")
        st = self.stats
        if running_before and not req_before:
            st["unengaged_running_iter"] += 1
        for e in pred.events:
            if e in ("must_finish-continue", "default-fallback", "now-chain"):
                st["mf_or_default_or_now"] += 1
            if e in ("expiry-hop", "cycle-restart"):
                st["expiry_entries"] += 1
            if e in ("exact-landing-strict", "tie-forked", "long-pause-expiry"):
                st["exact_or_pause"] += 1
            if e in ("disengage-stop", "expiry-finish-stop", "in-state-done", "cycle-restart"):
                st["stop_causes"].add(e)
            if e == "machine-start" and st["stop_causes"]:
                st["reengaged"] += 1
            if e == "cycle-restart":
                self.consec_cycles += 1
                if self.consec_cycles == 3:
                    self.ev("three-consecutive-cycles")
            if e in ("disengage-stop", "expiry-finish-stop", "in-state-done"):
                self.consec_cycles = 0
        for c, (name, args) in zip([c for c in pred.calls], obs_calls):
            if c["kind"] == "regular":
                if c["ic"]:
                    self._last_true = (name, c.get("by"))
                elif getattr(self, "_last_true", None) and self._last_true[0] == name:
                    self.ev("ic-false-after-true")
                    st["entry_kinds_tf"].add(self._last_true[1])
                    self._last_true = None
        if self.trace is not None:
            self.trace.append(f"  t={now}us execute -> calls={obs_calls} done={n_done} events={pred.events}")
        return self._post_state(["execute"])

    def _diverge(self, div, op, pred=None, obs=None, now=None):
        mine = [d for d in div if self.pid in d["props"]]
        for d in div:
            self.ev("divergence-" + d["kind"])
        if mine:
            d = mine[0]
            self.violation = {"kinds": sorted({x["kind"] for x in mine}), "first": d["kind"], "detail": d["detail"],
                              "all": [x["detail"] for x in div][:6], "op": op, "time_us": now,
                              "observed_calls": obs,
                              "predicted_calls": None if pred is None else [
                                  {k: v for k, v in c.items() if k in ("name", "tm", "state_tm", "ic", "by", "kind")} for c in pred.calls],
                              "predicted_events": None if pred is None else pred.events}
        else:
            self.ev("divergence-owned-by-other-property")
        return False

    # ---- online history generation
    def run_generated(self, rng):
        case = self.case
        ops = []
        period = case["period"]
        grid = case["grid"]
        names = [n for n, s in self.eff.items() if s["kind"] != "default"]
        timed = [n for n, s in self.eff.items() if s["kind"] == "timed"]
        pid = self.pid
        total = rng.choice([30, 60, 120, 250, 400]) if rng.random() > 0.004 else 3000
        if case.get("marathon"):
            total = 3000            # thousands of iterations of one continuously engaged run
            self.ev("marathon-run")
        if case.get("long_chain"):
            self.ev("machine-of-1100-chained-states")
        if case.get("ultra"):
            total = 100000          # one object lives through 100 000 control loops (33 minutes at 50 Hz) of mixed use
            self.ev("object-used-for-100000-iterations")
        late = rng.random() < 0.3
        if late:
            self.ev("clock-moves-between-engage-and-execute")
        it = 0

        def do(op):
            ops.append(op)
            return self.apply(op)

        while it < total:
            mode = rng.choices(["cont", "idle", "rand", "burst"],
                               {"C02": [6, 1, 1, 1], "C04": [3, 2, 3, 2], "C01": [2, 2, 3, 3]}.get(pid, [3, 1, 2, 2]))[0]
            length = rng.choice([3, 8, 20, 60, 150]) if mode == "cont" else rng.choice([1, 2, 5, 12])
            if case.get("marathon") and rng.random() < 0.8:
                mode, length = "cont", 2500          # engaged in every iteration for thousands of iterations
            clock = rng.choices(["fixed", "jitter", "random", "land"], [4, 2, 2, 3 if pid == "C02" else 1])[0]
            p_eng = rng.random()
            burst_on = True
            for j in range(length):
                if it >= total:
                    break
                it += 1
                # ---- clock
                adv = period
                r = rng.random()
                if r < 0.03:
                    adv = 0
                elif r < 0.06:
                    adv = period * rng.choice([40, 100, 250]) if not grid else GRID * rng.choice([64, 128, 200])
                elif clock == "jitter" and not grid:
                    adv = max(0, period + rng.randrange(-period // 3, period // 3 + 1))
                elif clock == "random":
                    adv = rng.randrange(0, 6 * period) if not grid else GRID * rng.randrange(0, 7)
                if rng.random() < 0.0015:
                    adv = 2 ** 32 + (GRID * 3 if grid else 12345)          # the robot sits for 72 minutes
                    self.ev("pause-of-72-minutes")
                    clock = "land"      # ... and from then on the loop keeps landing on / a few us around the expiry instants
                if (clock == "land" or rng.random() < 0.08):
                    mm = self.model.members[0]
                    if mm.running and mm.cur is not None and mm.cur.has_run and mm.cur.d is not None:
                        exp_abs = mm.origin + mm.cur.s + mm.cur.d
                        delta = 0 if grid else rng.choice([0, 0, 0, -1, 1, 2, 3, -2])
                        a = exp_abs + delta - self.now_us()
                        if a >= 0 and (a <= 40 * period or mm.cur.d >= 6 * 10 ** 7) and (not grid or a % GRID == 0):
                            adv = a
                            self.ev("landing-step")
                # the calls of this iteration come right before execute() (a component that runs before the machine), or - in
                # `late` cases - the clock moves between them and execute() (a component that runs AFTER the machine called
                # engage() in the previous loop: the request is consumed one period later)
                if not late and not do(["adv", adv]):
                    return ops
                # ---- pre-ops
                pre = []
                if mode == "cont":
                    eng = True
                elif mode == "idle":
                    eng = False
                elif mode == "rand":
                    eng = rng.random() < p_eng
                else:
                    if rng.random() < 0.3:
                        burst_on = not burst_on
                    eng = burst_on
                if eng:
                    init = None
                    force = False
                    as_obj = False
                    r = rng.random()
                    if r < 0.08:
                        init = rng.choice(names)
                        as_obj = rng.random() < 0.4
                    if rng.random() < 0.05:
                        force = True
                    pre.append(["engage", init, force, as_obj])
                    if rng.random() < (0.35 if init is not None else 0.05):
                        pre.append(["engage", None, False, False])        # a second caller asks for the machine in the same iteration
                    if rng.random() < 0.002:
                        pre += [["engage", None, False, False]] * 60        # many callers ask for the machine in one iteration
                r = rng.random()
                p_stop = 0.06 if pid == "C04" else 0.02
                if case.get("marathon"):
                    p_stop = 0.0003          # (hardly ever stopped from outside)
                if r < p_stop:
                    pre.insert(rng.randrange(len(pre) + 1), [rng.choice(["done", "done", "on_disable"])])
                if timed and rng.random() < (0.06 if pid == "C02" else 0.02):
                    nm = rng.choice(timed)
                    s = self.eff[nm]
                    if s.get("dur_int"):
                        v = rng.choice([0, 1000000, 2000000])
                    elif grid:
                        v = GRID * rng.choice([0, 1, 2, 3, 5, 8, -1])
                    else:
                        v = rng.choice([0, period // 2, period, period * 3, rng.randrange(1, 10 * period), -period, -1])
                    if v < 0:
                        self.ev("negative-duration-written")       # a dashboard user can type anything
                    pre.append(["nt", nm, v])
                for op in pre:
                    if not do(op):
                        return ops
                if late and not do(["adv", adv]):
                    return ops
                if self.sib is not None and rng.random() < 0.6:
                    for sop in rng.choice([["engage", "execute"], ["execute"], ["engage", "execute"], ["done"], ["engage"]]):
                        if not do(["sib", sop]):
                            return ops
                if not do(["execute"]):
                    return ops
        return ops

    def run_concrete(self, ops):
        for op in ops:
            if not self.apply(op):
                break

    def nontrivial(self):
        st = self.stats
        pid = self.pid
        if pid == "C01":
            return st["unengaged_running_iter"] >= 1 and st["mf_or_default_or_now"] >= 1
        if pid == "C02":
            return st["expiry_entries"] >= 2 and st["exact_or_pause"] >= 1
        if pid == "C03":
            return len(st["entry_kinds_tf"]) >= 3
        if pid == "C04":
            return len(st["stop_causes"]) >= 2 and st["reengaged"] >= 1
        return False

    def close(self):
        self.mach.close()
        if self.sib is not None:
            self.sib.close()


def _set_tol(drv, now_us):
    """Float tolerance of the tm / state_tm comparisons.  The library keeps its clock origin in float seconds and re-bases it
    by addition at every restart: each execute() can add a rounding error of up to 2 ulp of the FPGA time.  1 ns plus that
    bound - still far below the 1 us resolution of the clock even after thousands of iterations at 55 h of uptime."""
    import math
    drv._n_exec = getattr(drv, "_n_exec", 0) + 1
    sm_model.TOL = 1e-9 + 2 * math.ulp(now_us / 1e6) * (drv._n_exec + 2)


class _Stuck(BaseException):
    """A library call did not come back (not an Exception: nothing in the library may swallow it)."""


STRICT_BUDGET = {"on": False, "lines": 0}
LINE_BUDGET = 2_000_000          # lines of repository code one single API call may execute (a normal call executes < 300)
NOMINATE_AFTER_S = 10            # wall-clock, only NOMINATES a candidate in a shard; the verdict is the line budget in the replay


class _bounded:
    """Around one library call.  In a shard: a wall-clock alarm that nominates 'did not return' (a candidate, to be confirmed).
    In a replay: the deciding, deterministic bound - sys.monitoring counts the repository lines the call executes."""

    def __enter__(self):
        import signal
        import threading
        self.sig = threading.current_thread() is threading.main_thread()
        if STRICT_BUDGET["on"]:
            STRICT_BUDGET["lines"] = 0
        if self.sig:
            def on_alarm(_s, _f):
                raise _Stuck("wall-clock nomination")
            self.old = signal.signal(signal.SIGALRM, on_alarm)
            signal.setitimer(signal.ITIMER_REAL, 600 if STRICT_BUDGET["on"] else NOMINATE_AFTER_S)
        return self

    def __exit__(self, *a):
        import signal
        if self.sig:
            signal.setitimer(signal.ITIMER_REAL, 0)
            signal.signal(signal.SIGALRM, self.old)
        return False


def _enable_line_budget():
    """Replay only: every line of repository code counts; a call beyond LINE_BUDGET lines is declared non-terminating."""
    import os
    import sys
    mon = sys.monitoring
    root = os.path.abspath(os.environ.get("VERIF_REPO", "/repo")) + os.sep
    tool = 2

    def on_line(code, line):
        if not code.co_filename.startswith(root):
            return mon.DISABLE
        STRICT_BUDGET["lines"] += 1
        if STRICT_BUDGET["lines"] > LINE_BUDGET:
            STRICT_BUDGET["lines"] = 0
            raise _Stuck(f"more than {LINE_BUDGET} lines of library code in one call")
    try:
        mon.use_tool_id(tool, "vf-budget")
        mon.register_callback(tool, mon.events.LINE, on_line)
        mon.set_events(tool, mon.events.LINE)
        STRICT_BUDGET["on"] = True
    except Exception:  # noqa
        pass


def _set_ds(mode):
    import wpilib
    from wpilib.simulation import DriverStationSim as DS
    DS.setEnabled(mode != "disabled")
    DS.setAutonomous(mode == "auto")
    DS.setTest(False)
    DS.setDsAttached(True)
    DS.notifyNewData()
    wpilib.DriverStation.refreshData()


# ----------------------------------------------------------------------------- C13: twin-based driver
class AutoDriver:
    """AutonomousStateMachine versus a plain StateMachine twin engaged before every iteration."""

    def __init__(self, case, acc, verbose=False):
        import wpilib
        import hal.simulation as hs
        from magicbot.state_machine import StateMachine, AutonomousStateMachine
        self.case = case
        self.acc = acc
        self.hs = hs
        self.now_us = wpilib.RobotController.getFPGATime
        self.eff = effective_shape(case)
        self.events = {}
        self.violation = None
        self.trace = [] if verbose else None
        if case["grid"]:
            r = self.now_us() % GRID
            if r:
                hs.stepTimingAsync(GRID - r)
        if case.get("ds"):
            # what the driver station says while the mode runs (the unit tests always run with a disabled one)
            _set_ds(case["ds"])
            self.events["driver-station-" + case["ds"]] = 1
        self.auto = Machine(case, AutonomousStateMachine, case["uid"])
        self.twin = Machine(case, StateMachine, case["uid"] + "t")
        self.first = [n for n, s in self.eff.items() if s["first"]][0]
        self.default = next((n for n, s in self.eff.items() if s["kind"] == "default"), None)
        self.armed = False
        self.ended = True
        self.fresh = False
        self.period_no = 0
        self.post_end = 0
        self.ended_once = False
        # guidance only (clock landing): the model is not part of any C13 verdict
        shape = {n: {"kind": s["kind"], "must_finish": s["must_finish"], "next": s.get("next"), "first": s["first"]}
                 for n, s in self.eff.items()}
        self.guide = Model(shape, auto=True, grid=case["grid"])
        self.dur = {n: case["pre_nt"].get(n, s["dur_us"]) for n, s in self.eff.items() if s["kind"] == "timed"}
        self.stay = None        # [name, FPGA us of the first call, largest duration in force since] of a last timed state

    def ev(self, k, n=1):
        self.events[k] = self.events.get(k, 0) + n

    def fail(self, kind, detail, op):
        self.violation = {"kinds": [kind], "first": kind, "detail": detail, "op": op, "time_us": self.now_us()}
        return False

    def _last_state_rule(self, alog, now, op):
        """Absolute rule, no twin and no timing model: a timed state without next_state whose first call of this stay was
        at FPGA time t has expired (at the latest) once the clock is past t + duration - its clock cannot have started
        later than its first call - so it must not be called then ('until ... the last timed state expires')."""
        for e in alog:
            if e[0] == "state":
                s = self.eff[e[1]]
                if s["kind"] == "default":
                    continue
                if s["kind"] == "timed" and s.get("next") is None:
                    st = self.stay
                    if st is not None and st[0] == e[1]:
                        self.acc.checks += 1
                        self.ev("auto-last-timed-state-stay-checked")
                        if now > st[1] + st[2]:
                            return self.fail("ran-past-expiry", f"last timed state {e[1]} (duration {st[2]} us, no next_state) first ran at "
                                             f"{st[1]} us and is still being called at {now} us", op)
                    else:
                        self.stay = [e[1], now, self.dur[e[1]]]
                else:
                    self.stay = None
            else:
                self.stay = None
        return True

    def apply(self, op):
        try:
            with _bounded():
                return self._apply(op)
        except _Stuck as e:
            return self.fail("did-not-return", f"{op[0]} did not return ({e})", op)

    def _apply(self, op):
        a, t = self.auto.m, self.twin.m
        k = op[0]
        del self.auto.log[:]
        del self.twin.log[:]
        if k == "adv":
            if op[1] > 0:
                self.hs.stepTimingAsync(op[1])
            return True
        if k == "nt":
            self.auto.nt_write(op[1], op[2])
            self.twin.nt_write(op[1], op[2])
            self.dur[op[1]] = op[2]
            if self.stay is not None and self.stay[0] == op[1]:
                self.stay[2] = max(self.stay[2], op[2])
            return True
        try:
            if k == "on_enable":
                self.stay = None
                a.on_enable()
                t.done()
                t._vf_counts = dict(a._vf_counts)
                del self.twin.log[:]
                self.armed = True
                self.ended = False
                self.fresh = True
                self.period_no += 1
                if self.period_no >= 2:
                    self.ev("auto-second-period")
                self.guide.op_done()
                self.guide.op_on_enable()
                if self.auto.log:
                    return self.fail("callback-at-on_enable", f"on_enable() invoked {self.auto.log}", op)
                return self._post(op, expect_running=False)
            if k in ("on_disable", "done"):
                was = not self.ended
                self.stay = None
                getattr(a, k)()
                t.done()
                if was:
                    self.ev("auto-disabled-midrun" if k == "on_disable" else "auto-external-done")
                calls = [e for e in self.auto.log if e[0] == "state"]
                if calls:
                    return self.fail("callback-at-stop", f"{k}() ran state functions {calls}", op)
                self.ended = True
                self.armed = False
                self.guide.op_done()
                return self._post(op, expect_running=False)
            if k == "iter":
                return self._iter(op)
        except Exception as e:  # noqa
            return self.fail("raised", f"{k} raised {e!r}", op)
        return True

    def _post(self, op, expect_running):
        a = self.auto.m
        self.acc.checks += 1
        if a.is_executing is not expect_running:
            return self.fail("is_executing", f"after {op[0]}: is_executing expected {expect_running}, got {a.is_executing!r}", op)
        return True

    def _iter(self, op):
        a, t = self.auto.m, self.twin.m
        now = self.now_us()
        _set_tol(self, now)
        a.on_iteration(op[1])
        alog = list(self.auto.log)
        acalls = [(e[1], e[2]) for e in alog if e[0] == "state"]
        if not self._last_state_rule(alog, now, op):
            return False
        # absolute (no twin): every argument a state function receives has the documented type
        for n_, a_ in acalls:
            for p_, v_ in a_.items():
                self.acc.checks += 1
                if (p_ == "initial_call" and type(v_) is not bool) or (p_ in ("tm", "state_tm") and type(v_) is not float):
                    return self.fail("arg-type", f"{n_}: parameter {p_} received {v_!r}", op)
        if self.ended:
            self.post_end += 1
            self.ev("auto-post-end-iteration")
            self.acc.checks += 2
            if acalls:
                return self.fail("call-after-end", f"state functions ran after the machine ended: {acalls}", op)
            return self._post(op, expect_running=False)
        t.engage()
        t.execute()
        tlog = list(self.twin.log)
        # the twin's state calls before its first done() event are what the auto machine must do.  An expiry
        # of the last state is noticed before any state runs, so a done() that opens the log is an expiry;
        # a done() after a state call was issued by that state (script).
        exp_calls = []
        ended_here = None
        for e in tlog:
            if e[0] == "state":
                exp_calls.append((e[1], e[2]))
            elif e[0] == "done":
                ended_here = "done" if exp_calls else "expiry"
                break
        got = acalls
        tail = []
        if ended_here:
            got = acalls[:len(exp_calls)]
            tail = acalls[len(exp_calls):]
        self.acc.checks += 1 + 3 * len(exp_calls)
        self.ev("auto-twin-compared-iteration")
        if [g[0] for g in got] != [e[0] for e in exp_calls]:
            return self.fail("fn-seq", f"auto ran {[g[0] for g in acalls]}, plain machine engaged every iteration ran {[e[0] for e in exp_calls]}", op)
        for (gn, ga), (en, ea) in zip(got, exp_calls):
            for p in ea:
                ok = (ga[p] is ea[p]) if p == "initial_call" else (type(ga[p]) is float and abs(ga[p] - ea[p]) <= 1e-9)
                if not ok:
                    return self.fail(p, f"{gn}: {p} is {ga[p]!r} but {ea[p]!r} in the plain machine engaged every iteration", op)
        if self.fresh and got:
            n0, a0 = got[0]
            self.fresh = False
            self.acc.checks += 3
            if n0 != self.first:
                return self.fail("start-state", f"first state after on_enable is {n0}, expected {self.first}", op)
            if "initial_call" in a0 and a0["initial_call"] is not True:
                return self.fail("start-initial_call", "first call after on_enable has initial_call False", op)
            if "tm" in a0 and not (type(a0["tm"]) is float and abs(a0["tm"]) <= 1e-9):
                return self.fail("start-tm", f"first call after on_enable has tm {a0['tm']!r}", op)
        # anything beyond: only the default state, at most once
        if tail and not (len(tail) == 1 and tail[0][0] == self.default):
            return self.fail("call-after-end", f"after the machine finished in this iteration it ran {[x[0] for x in tail]}", op)
        self._guide_step(now)
        if ended_here:
            self.ended = True
            self.ended_once = True
            self.ev("auto-ended-by-" + ended_here)
            return self._post(op, expect_running=False)
        if not exp_calls and not acalls:
            # nothing ran in either (e.g. external done() on both) - treat as ended for the absolute rules
            pass
        if a.is_executing is not t.is_executing and t.is_executing:
            return self.fail("is_executing", f"is_executing {a.is_executing!r} while running (plain machine: {t.is_executing!r})", op)
        return True

    def _guide_step(self, now):
        try:
            g = self.guide
            for mm in g.members:
                mm.req = True
                if mm.cur is None and mm.latch:
                    g.op_engage()
            try:
                _, m2 = g.simulate(g.members[0], now, self.dur.__getitem__, self.case["script"], [])
            except NeedChoice:
                _, m2 = g.simulate(g.members[0], now, self.dur.__getitem__, self.case["script"], [0, 0, 0])
            g.members = [m2]
        except Exception:  # guidance only
            pass

    def run_generated(self, rng):
        case = self.case
        ops = []
        period = case["period"]
        grid = case["grid"]
        timed = [n for n, s in self.eff.items() if s["kind"] == "timed"]

        def do(op):
            ops.append(op)
            return self.apply(op)

        tm_arg = 0.0
        ultra = bool(case.get("ultra"))
        if ultra:
            self.ev("auto-object-used-for-160-periods")
        for per in range(160 if ultra else rng.choice([1, 2, 2, 3, 4]) if rng.random() > 0.03 else rng.choice([9, 14])):
            if not do(["on_enable"]):
                return ops
            n_it = 1000 if ultra else rng.choice([5, 15, 40, 100, 200])          # (ultra: one object lives through 160 000 control loops)
            clock = rng.choice(["fixed", "fixed", "random", "land"])
            t_period = 0.0
            for j in range(n_it):
                adv = period
                r = rng.random()
                if r < 0.03:
                    adv = 0
                elif r < 0.05:
                    adv = period * rng.choice([40, 100]) if not grid else GRID * 64
                elif clock == "random":
                    adv = rng.randrange(0, 6 * period) if not grid else GRID * rng.randrange(0, 7)
                if clock == "land" or rng.random() < 0.08:
                    mm = self.guide.members[0]
                    if mm.running and mm.cur is not None and mm.cur.has_run and mm.cur.d is not None:
                        a_ = mm.origin + mm.cur.s + mm.cur.d + (0 if grid else rng.choice([0, 0, -1, 1])) - self.now_us()
                        if 0 <= a_ and (a_ <= 40 * period or mm.cur.d >= 6 * 10 ** 7) and (not grid or a_ % GRID == 0):
                            adv = a_
                            self.ev("landing-step")
                if not do(["adv", adv]):
                    return ops
                if timed and rng.random() < 0.02:
                    nm = rng.choice(timed)
                    s = self.eff[nm]
                    v = rng.choice([0, 1000000]) if s.get("dur_int") else (GRID * rng.choice([0, 1, 3, -1]) if grid else rng.choice([0, period, 3 * period, -period, -1]))
                    if not do(["nt", nm, v]):
                        return ops
                r = rng.random() * (40 if ultra else 1)
                if r < 0.01:
                    if not do(["on_disable"]):
                        return ops
                elif r < 0.015:
                    if not do(["done"]):
                        return ops
                t_period += adv / 1e6
                if not do(["iter", t_period]):
                    return ops
            # a period always ends with on_disable() when the machine may still be running (on_enable() on a
            # running machine is outside the statement); after the end it is called most of the time
            if not self.ended or case.get("always_disable") or rng.random() < 0.7:
                if not do(["on_disable"]):
                    return ops
            if not do(["adv", period * rng.choice([1, 5, 50])]):
                return ops
        return ops

    def run_concrete(self, ops):
        for op in ops:
            if not self.apply(op):
                break

    def nontrivial(self):
        return self.ended_once and (self.post_end >= 1 or self.period_no >= 2)

    def close(self):
        if self.case.get("ds"):
            _set_ds("disabled")
        self.auto.close()
        self.twin.close()


# ----------------------------------------------------------------------------- shard / replay
def classify(pid, v):
    """Mechanism key of a violation (never a case hash)."""
    return f"{pid}/{v['first']}"


class _NotBuilt:
    """Every generated definition is a valid one (malformed ones are C12's): a machine that cannot even be built or set up
    breaks whatever is promised about its behaviour."""
    trace = None

    def __init__(self, case, exc):
        import traceback
        tb = traceback.extract_tb(exc.__traceback__)
        where = f"{tb[-1].filename.split('/')[-1]}:{tb[-1].name}" if tb else "?"
        n = sum(len(c["states"]) for c in case["classes"])
        self.events = {"machine-could-not-be-built": 1}
        self.eff = effective_shape(case)
        self.violation = {"kinds": ["construction-raised"], "first": "construction-raised", "op": None, "time_us": 0,
                          "detail": f"building / setting up a valid machine of {n} states raised {type(exc).__name__}: {str(exc)[:200]} at {where}"}

    def nontrivial(self):
        return False


def _run_one(case, acc, ops=None, verbose=False):
    D = AutoDriver if case["auto"] else Driver
    try:
        d = D(case, acc, verbose)
    except Exception as exc:  # noqa
        if case.get("ds"):
            _set_ds("disabled")
        return _NotBuilt(case, exc), (ops or [])
    try:
        if ops is None:
            rng = random.Random(case["hseed"])
            ops = d.run_generated(rng)
        else:
            d.run_concrete(ops)
    finally:
        d.close()
    return d, ops


def run_shard(spec):
    import hal.simulation as hs
    hs.pauseTiming()
    pid = spec["pid"]
    rng = random.Random(spec["seed"])
    acc = Acc()
    sigs_seen = set()
    for i in range(spec["n"]):
        uid = f"v{spec['seed']:x}x{i}"
        case = gen_case(rng, pid, uid)
        if spec.get("ultra"):
            # one object used for 160 autonomous periods of 1000 control loops; its states do not call done() themselves, so
            # most of those loops find the machine running
            case["ultra"] = True
            for nm_, acts_ in case["script"].items():
                if isinstance(acts_, list):
                    case["script"][nm_] = [None if (a_ and a_[0] in ("done", "done_now")) else a_ for a_ in acts_]
        if i % 400 == 399:
            # the clock jumps ahead by hours (2^31 us, 2^32 us, ~2.8 h): later cases of the shard run at a large FPGA time
            hs.stepTimingAsync([2 ** 31, 2 ** 32, 10 ** 10][(i // 400) % 3])
            acc.ev("fpga-clock-jumped-ahead-by-hours")
        import wpilib
        t0_us = wpilib.RobotController.getFPGATime()
        d, ops = _run_one(case, acc)
        case["t0_us"] = t0_us          # a replay starts at the same FPGA time (large clock values are part of the case)
        acc.evaluations += 1
        for k, n in d.events.items():
            acc.ev(k, n)
        if case.get("verbose"):
            acc.ev("verbose-logging-on")
        if any(s_.get("sig_defaults") for c_ in case["classes"] for s_ in c_["states"]):
            acc.ev("state-parameters-declared-with-default-values")
        if pid == "C03":
            for s in d.eff.values():
                sigs_seen.add((s["kind"], tuple(s["sig"])))
        concrete = dict(case)
        concrete["ops"] = ops
        if d.nontrivial():
            acc.nontrivial.add(stable_hash([case["classes"], case["script"], ops]))
        if d.violation is not None:
            key = classify(pid, d.violation)
            acc.violation(key, d.violation["detail"], concrete, d.violation)
        if d.events.get("divergence-did-not-return") or (d.violation or {}).get("first") == "did-not-return":
            stuck = acc.extra["calls_that_did_not_return"] = acc.extra.get("calls_that_did_not_return", 0) + 1
            if stuck >= 2:
                acc.extra["shard_stopped_early"] = f"after {i + 1} of {spec['n']} cases: two library calls did not return"
                break
        if len(acc.samples) < 2 and d.nontrivial():
            acc.samples.append({"shape": [{k: v for k, v in s.items() if k in ("name", "kind", "first", "must_finish", "next", "dur_us", "sig")}
                                          for c in case["classes"] for s in c["states"]],
                                "classes": [(c["name"], c["bases"]) for c in case["classes"]],
                                "ops_head": ops[:24], "n_ops": len(ops),
                                "events": dict(d.events)})
    if pid == "C03":
        acc.events["signature-subsets-seen"] = len({s for _, s in sigs_seen})
        acc.extra["signature_x_decorator_pairs_seen"] = len(sigs_seen)
    return acc.result()


def replay(pid, case):
    import hal.simulation as hs
    hs.pauseTiming()
    _enable_line_budget()
    acc = Acc()
    case = dict(case)
    case["pid"] = pid
    if case.get("t0_us"):
        import wpilib
        behind = case["t0_us"] - wpilib.RobotController.getFPGATime()
        if behind > 0:
            hs.stepTimingAsync(behind)
    d, _ = _run_one(case, acc, ops=case["ops"], verbose=True)
    if d.violation is None:
        return None
    v = dict(d.violation)
    v["key"] = classify(pid, v)
    v["what"] = v["detail"]
    if d.trace:
        v["trace"] = d.trace[-40:]
    return v
