"""C15 - StatefulAutonomous: generated modes, scripted tm sequences over several periods, reference model."""
from __future__ import annotations

import itertools
import random

from .common import Acc, stable_hash

PROPERTIES = {"C15": "StatefulAutonomous"}
GRID = 15625
TOL = 1e-9
RULE = {"C15": "generated StatefulAutonomous subclasses (1-6 states: chains, loops, branches, self re-entry; timed/untimed; each "
               "state function declaring one of the 16 ordered parameter subsets) run 1-4 autonomous periods on the same "
               "instance with non-decreasing tm sequences (regular, jittered, late first iteration, landings exactly on / "
               "+-1us of an expiry; 1/64 s grid cases are judged strictly), scripted next_state()/done(), durations and "
               "registered variables edited on the dashboard between periods.  Non-trivial = >=2 periods or a re-entered "
               "state, and >=1 expiry hop; distinct = hash of (definition, script, concrete history)."}
RULE["C15"] += '  Also: states spread over up to three class levels, underscore-named states, a second mode with the same state names constructed / run in the same process.'
REQUIRED = {"C15": {"expiry-hop": 500, "expiry-finish": 100, "re-entry-by-next_state": 100, "second-period": 300,
                    "late-first-iteration": 100, "dashboard-edited-duration": 100, "registered-var-read": 100,
                    "in-state-done": 100, "post-end-iteration": 300, "exact-landing-strict": 100, "tie-accepted": 20,
                    "re-entered-timed-state-ran": 50, "states-inherited-through-two-or-more-levels": 100,
                    "second-mode-with-same-state-names-in-process": 200, "other-mode-ran-between-periods": 50,
                    "underscore-named-timed-state": 100, "dashboard-edited-while-the-period-runs": 300, "negative-duration-typed-on-the-dashboard": 50, "mode-of-1100-chained-states": 1}}
ASSUMPTIONS = {"C15": ["an expiry comparison landing exactly on start+duration is a tie unless every operand lies on the 1/64 s grid"]}

NAMES = ["sa", "sb", "sc", "sd", "se", "sf"]
PARAMS = ("tm", "state_tm", "initial_call")
SUBSETS = [list(p) for r in range(4) for p in itertools.permutations(PARAMS, r)]


def shards(pid, tier, seed):
    if tier == "quick":
        return [{"n": 500} for _ in range(8)]
    return [{"n": 8000} for _ in range(48)]


def gen_case(rng, uid):
    n = rng.choice([1, 2, 3, 3, 4, 5, 6])
    names = [("_" + x if rng.random() < 0.15 else x) for x in NAMES[:n]]      # '_settle' is a legal state name
    long_chain = rng.random() < 0.004
    if long_chain:
        # a scripted routine: 1100 short timed steps, each linked to the next one
        n = 1100
        names = [f"q{i:04d}" for i in range(n)]
    grid = rng.random() < 0.4
    period = GRID * rng.choice([1, 2, 4]) if grid else rng.choice([20000, 5000, 50000, 10000])

    def dur():
        if grid:
            return GRID * rng.choice([0, 1, 2, 3, 5, 8, 16, 64])
        return rng.choice([0, rng.randrange(1, period), period * rng.randrange(1, 8), rng.randrange(period, 10 * period), 1000000])
    first = 0 if long_chain else rng.randrange(n)
    states = []
    for i, nm in enumerate(names):
        timed = long_chain or rng.random() < 0.65
        st = {"name": nm, "timed": timed, "first": i == first, "sig": rng.choice(SUBSETS) if rng.random() < 0.6 else list(PARAMS),
              "doc": rng.choice([None, f"about {nm}"])}
        if timed:
            st["dur_us"] = dur()
            st["dur_int"] = st["dur_us"] % 1000000 == 0 and rng.random() < 0.4
            r = rng.random()
            st["next"] = None if r < 0.25 else names[(i + 1) % n] if r < 0.6 else rng.choice(names)
            if long_chain:
                st["next"] = names[i + 1] if i + 1 < n else None
        states.append(st)
    script = {}
    for nm in names:
        acts = []
        for _ in range(rng.choice([5, 20, 50])):
            r = rng.random()
            if r < 0.1:
                acts.append(["next", rng.choice(names)])
            elif r < 0.13:
                acts.append(["done"])
            else:
                acts.append(None)
        script[nm] = acts
    if long_chain:
        script = {nm: (acts[:3] if i_ % 50 == 0 else []) for i_, (nm, acts) in enumerate(script.items())}
    sdvars = []
    for i in range(rng.randrange(0, 3)):
        sdvars.append({"name": f"v{i}_{uid}", "default": rng.choice([True, False, 1, 0.5, -2.25, "txt", ""]), "prefix": rng.random() < 0.7})
    # the states may be spread over up to three levels of subclassing (the last level is the mode class itself)
    nlev = rng.choice([1, 1, 2, 3, 3])
    for st in states:
        st["level"] = rng.randrange(nlev)
    # a second mode with the same state / variable names but other durations and defaults, living in the same process
    companion = None
    if rng.random() < 0.35:
        companion = {"durs": {st["name"]: dur() for st in states}, "when": rng.choice(["before", "after", "after"]),
                     "runs": rng.random() < 0.5,
                     "vars": [rng.choice([True, 7, 0.125, "other"]) for _ in sdvars]}
    return {"uid": uid, "bad_register": bool(sdvars) and rng.random() < 0.3, "base_first": nlev >= 2 and rng.random() < 0.4, "long_chain": long_chain, "grid": grid, "period": period, "states": states, "script": script, "sdvars": sdvars,
            "levels": nlev, "companion": companion, "hseed": rng.randrange(1 << 30), "ops": None}


_FN = {}


def _make_fn(name, sig):
    key = (name, tuple(sig))
    if key not in _FN:
        params = ", ".join(["self"] + list(sig))
        d = ", ".join(f"'{p}': {p}" for p in sig)
        ns = {"_vf_body": _vf_body}
        exec(f"def {name}({params}):\n    _vf_body(self, '{name}', {{{d}}})\n", ns)
        _FN[key] = ns[name]
    import types
    f = _FN[key]
    return types.FunctionType(f.__code__, f.__globals__, name)


def _vf_body(self, name, args):
    self._vf_log.append(("state", name, args))
    i = self._vf_counts.get(name, 0)
    self._vf_counts[name] = i + 1
    sc = self._vf_script.get(name)
    act = sc[i] if sc and i < len(sc) else None
    if act:
        if act[0] == "done":
            self.done()
        else:
            self.next_state(act[1])


def build_companion(case):
    """Another mode class of the same process: same state and variable names, other durations / defaults."""
    from robotpy_ext.autonomous import stateful_autonomous as sa
    comp = case["companion"]
    body = {"MODE_NAME": case["uid"] + "_other"}
    names = [st["name"] for st in case["states"]]
    for i, st in enumerate(case["states"]):
        f = _make_fn(st["name"], st["sig"])
        body[st["name"]] = sa.timed_state(duration=comp["durs"][st["name"]] / 1e6, first=i == 0,
                                          next_state=names[i + 1] if i + 1 < len(names) else None)(f)
    sdvars = case["sdvars"]

    def initialize(self):
        for v, d in zip(sdvars, comp["vars"]):
            self.register_sd_var(v["name"], d, add_prefix=True)
    body["initialize"] = initialize
    return type("Other_" + case["uid"], (sa.StatefulAutonomous,), body)


def build(case):
    from robotpy_ext.autonomous import stateful_autonomous as sa
    nlev = case.get("levels", 1)
    bodies = [{} for _ in range(nlev)]
    body = bodies[-1]
    bodies[0]["MODE_NAME"] = case["uid"] + "_base"       # (a base level may be a mode of its own)
    body["MODE_NAME"] = case["uid"]
    for st in case["states"]:
        body = bodies[min(st.get("level", nlev - 1), nlev - 1)]
        f = _make_fn(st["name"], st["sig"])
        f.__doc__ = st.get("doc")
        if st["timed"]:
            d = st["dur_us"] // 1000000 if st.get("dur_int") else st["dur_us"] / 1e6
            style = stable_hash(st["name"] + case["uid"]) % 2
            if style:
                obj = sa.timed_state(duration=d, next_state=st["next"], first=st["first"])(f)
            else:
                obj = sa.timed_state(f, duration=d, next_state=st["next"], first=st["first"])
        else:
            obj = sa.state(first=True)(f) if st["first"] else sa.state(f)
        body[st["name"]] = obj
    sdvars = case["sdvars"]

    bad_first = case.get("bad_register")

    def initialize(self):
        for v in sdvars:
            if bad_first:
                # a default that is not bool / number / str is refused with ValueError; the mode falls back to a literal
                try:
                    self.register_sd_var(v["name"], None, add_prefix=v["prefix"])
                except ValueError:
                    pass
            self.register_sd_var(v["name"], v["default"], add_prefix=v["prefix"])
    bodies[0]["initialize"] = initialize
    cls = sa.StatefulAutonomous
    for lv, b in enumerate(bodies):
        cls = type(("Mode_" if lv == nlev - 1 else f"Base{lv}_") + case["uid"], (cls,), b)
    return cls


class Model:
    def __init__(self, case):
        self.st = {s["name"]: s for s in case["states"]}
        self.first = [s["name"] for s in case["states"] if s["first"]][0]
        self.grid = case["grid"]
        self.cur = None
        self.entry = None   # dict(has_run, s, pend, d)
        self.durs = {}
        self.counts = {}
        self.script = case["script"]
        self.enabled = False

    def on_enable(self, dashboard):
        self.durs = dict(dashboard)
        self.cur = self.first
        self.entry = {"has_run": False, "s": None, "pend": None}
        self.enabled = True

    def clone(self):
        m = Model.__new__(Model)
        m.__dict__.update(self.__dict__)
        m.entry = dict(self.entry) if self.entry else None
        m.counts = dict(self.counts)
        return m

    def step(self, tm, choice):
        """returns (predicted call or None, events, tie)"""
        ev = []
        tie = False
        if self.cur is not None and self.st[self.cur]["timed"] and self.entry["has_run"]:
            exp = self.entry["s"] + self.entry["d"]
            if tm > exp:
                expired = True
            elif tm < exp:
                expired = False
            elif self.grid and tm % GRID == 0 and exp % GRID == 0 and self.entry["s"] % GRID == 0:
                expired = False
                ev.append("exact-landing-strict")
            else:
                tie = True
                expired = bool(choice)
            if expired:
                nxt = self.st[self.cur].get("next")
                if nxt is None:
                    self.cur = None
                    self.entry = None
                    ev.append("expiry-finish")
                else:
                    if nxt in self.counts and self.st[nxt]["timed"]:
                        ev.append("re-entered-timed-state-ran")
                    self.cur = nxt
                    self.entry = {"has_run": False, "s": None, "pend": exp}
                    ev.append("expiry-hop")
        if self.cur is None:
            ev.append("post-end-iteration")
            return None, ev, tie
        e = self.entry
        ic = not e["has_run"]
        if ic:
            e["has_run"] = True
            e["s"] = e["pend"] if e["pend"] is not None else tm
            if self.st[self.cur]["timed"]:
                e["d"] = self.durs[self.cur]
        name = self.cur
        call = {"name": name, "tm": tm, "state_tm": tm - e["s"], "ic": ic}
        i = self.counts.get(name, 0)
        self.counts[name] = i + 1
        sc = self.script.get(name)
        act = sc[i] if sc and i < len(sc) else None
        if act:
            if act[0] == "done":
                self.cur = None
                self.entry = None
                ev.append("in-state-done")
            else:
                if act[1] in self.counts:
                    ev.append("re-entry-by-next_state")
                self.cur = act[1]
                self.entry = {"has_run": False, "s": None, "pend": None}
        return call, ev, tie


def _match(call, obs):
    """obs: list of (name, args). Returns None if the observation matches the prediction, else a description."""
    if call is None:
        if obs:
            return "fn-after-end", f"nothing must run, but {[o[0] for o in obs]} ran"
        return None
    if len(obs) != 1 or obs[0][0] != call["name"]:
        return "fn-seq", f"expected state {call['name']} to run exactly once, observed {[o[0] for o in obs]}"
    a = obs[0][1]
    if "tm" in a and not (isinstance(a["tm"], (int, float)) and abs(a["tm"] - call["tm"] / 1e6) <= TOL):
        return "tm", f"{call['name']}: tm {a['tm']!r}, expected {call['tm'] / 1e6!r}"
    # state_tm is a difference of two float times of the size of tm, the older of which the library obtained by adding
    # durations at every hop: 1 ns plus 2 ulp of tm per hop so far (at tm = 19 h an ulp is 1.5e-11 s; still far below 1 us)
    import math
    tol_st = TOL + 2 * math.ulp(max(1.0, abs(call["tm"]) / 1e6)) * (call.get("n_iter", 0) + 2)
    if "state_tm" in a and not (isinstance(a["state_tm"], (int, float)) and abs(a["state_tm"] - call["state_tm"] / 1e6) <= tol_st):
        return "state_tm", f"{call['name']}: state_tm {a['state_tm']!r}, expected {call['state_tm'] / 1e6!r}"
    if "initial_call" in a and a["initial_call"] is not call["ic"]:
        return "initial_call", f"{call['name']}: initial_call {a['initial_call']!r}, expected {call['ic']!r}"
    return None


class Driver:
    def __init__(self, case, acc):
        import ntcore
        self.case = case
        self.acc = acc
        self.events = {}
        self.violation = None
        self.sd = ntcore.NetworkTableInstance.getDefault().getTable("SmartDashboard")
        cls = build(case)
        comp = case.get("companion")
        self.other = None
        if comp and comp["when"] == "before":
            self.other = self._mk_other()
        if case.get("bad_register"):
            self.events["refused-variable-registration-then-a-valid-one"] = 1
        if case.get("base_first"):
            # the selector instantiates every mode class of the package: the base modes exist before the derived one
            for b in reversed(cls.__mro__[1:case.get("levels", 1)]):
                try:
                    b()
                    self.events["base-mode-instantiated-before-the-derived-one"] = 1
                except Exception:  # noqa  (a base level that is no complete mode on its own is not instantiated by anybody)
                    pass
        self.mode = cls()
        if comp and comp["when"] == "after":
            self.other = self._mk_other()
        if any(st["name"].startswith("_") and st["timed"] for st in case["states"]):
            self.events["underscore-named-timed-state"] = 1
        if case.get("levels", 1) >= 3 and len({s.get("level") for s in case["states"]}) >= 2:
            self.events["states-inherited-through-two-or-more-levels"] = 1
        self.mode._vf_log = self.log = []
        self.mode._vf_counts = {}
        self.mode._vf_script = case["script"]
        self.models = [Model(case)]
        self.dash = {s["name"]: s["dur_us"] for s in case["states"] if s["timed"]}
        self.dash_vars = {v["name"]: v["default"] for v in case["sdvars"]}
        self.periods = 0
        self.hops = 0
        self.reentered = False

    def ev(self, k, n=1):
        self.events[k] = self.events.get(k, 0) + n

    def _mk_other(self):
        o = build_companion(self.case)()
        o._vf_log, o._vf_counts, o._vf_script = [], {}, {}
        self.events["second-mode-with-same-state-names-in-process"] = 1
        return o

    def run_other(self):
        """The other mode gets a short period of its own between two periods of the mode under test."""
        o = self.other
        o.on_enable()
        for j in range(4):
            o.on_iteration(j * self.case["period"] / 1e6)
        o.on_disable()
        self.ev("other-mode-ran-between-periods")

    def fail(self, kind, detail, op):
        self.violation = {"first": kind, "detail": detail, "op": op}
        return False

    def apply(self, op):
        k = op[0]
        del self.log[:]
        case = self.case
        if k == "sd_dur":
            st = next(s for s in case["states"] if s["name"] == op[1])
            self.sd.putNumber(f"{case['uid']}\\{op[1]}_duration", op[2] / 1e6)
            self.dash[op[1]] = op[2]
            self.ev("dashboard-edited-duration")
            return True
        if k == "sd_var":
            v = next(v for v in case["sdvars"] if v["name"] == op[1])
            key = f"{case['uid']}\\{op[1]}" if v["prefix"] else op[1]
            if isinstance(v["default"], bool):
                self.sd.putBoolean(key, op[2])
            elif isinstance(v["default"], str):
                self.sd.putString(key, op[2])
            else:
                self.sd.putNumber(key, op[2])
            self.dash_vars[op[1]] = op[2]
            return True
        try:
            if k == "other_period":
                if self.other is not None:
                    self.run_other()
                return True
            if k == "on_enable":
                self.mode.on_enable()
                self.periods += 1
                if self.periods >= 2:
                    self.ev("second-period")
                for m in self.models:
                    m.on_enable(self.dash)
                self.models = self.models[:1]
                if self.log:
                    return self.fail("callback-at-on_enable", f"on_enable ran {self.log}", op)
                for v in case["sdvars"]:
                    got = getattr(self.mode, v["name"], "<missing>")
                    self.acc.checks += 1
                    self.ev("registered-var-read")
                    if got != self.dash_vars[v["name"]] or (isinstance(v["default"], bool) and type(got) is not bool):
                        return self.fail("registered-var", f"after on_enable {v['name']} is {got!r}, dashboard value {self.dash_vars[v['name']]!r}", op)
                return True
            if k == "on_disable":
                self.mode.on_disable()
                if self.log:
                    return self.fail("callback-at-on_disable", f"on_disable ran {self.log}", op)
                return True
            if k == "iter":
                self.n_iter = getattr(self, "n_iter", 0) + 1
                self.mode.on_iteration(op[1] / 1e6)
                obs = [(e[1], e[2]) for e in self.log if e[0] == "state"]
                survivors = []
                fail = None
                for m in self.models:
                    for choice in (0, 1):
                        m2 = m.clone()
                        call, evs, tie = m2.step(op[1], choice)
                        if call is not None:
                            call["n_iter"] = self.n_iter
                        bad = _match(call, obs)
                        if bad is None:
                            survivors.append((m2, evs, tie))
                        elif fail is None:
                            fail = (bad, call)
                        if not tie:
                            break
                self.acc.checks += 4
                if not survivors:
                    (kind, detail), call = fail
                    self.violation = {"first": kind, "detail": detail, "op": op, "observed": obs, "predicted": call}
                    return False
                _, evs, tie = survivors[0]
                for e in evs:
                    self.ev(e)
                    if e == "expiry-hop":
                        self.hops += 1
                    if e in ("re-entry-by-next_state", "re-entered-timed-state-ran"):
                        self.reentered = True
                if tie:
                    self.ev("tie-accepted")
                seen, ms = set(), []
                for m2, _, _ in survivors:
                    key = (m2.cur, None if m2.entry is None else tuple(sorted(m2.entry.items(), key=str)), tuple(sorted(m2.counts.items())))
                    if key not in seen:
                        seen.add(key)
                        ms.append(m2)
                self.models = ms[:32]
                return True
        except Exception as e:  # noqa
            return self.fail("raised", f"{k} raised {e!r}", op)
        return True

    def run_generated(self, rng):
        case = self.case
        ops = []
        period, grid = case["period"], case["grid"]
        timed = [s for s in case["states"] if s["timed"]]

        def do(op):
            ops.append(op)
            return self.apply(op)
        if case.get("long_chain"):
            self.events["mode-of-1100-chained-states"] = 1
        for per in range(rng.choice([1, 2, 2, 3, 4]) if rng.random() > 0.03 else rng.choice([9, 14])):
            if per and timed and rng.random() < 0.5:
                st = rng.choice(timed)
                v = GRID * rng.choice([0, 1, 3, 8, -2]) if grid else rng.choice([0, period, 3 * period, rng.randrange(1, 5 * period), -period, -1])
                if v < 0:
                    self.ev("negative-duration-typed-on-the-dashboard")
                if not do(["sd_dur", st["name"], v]):
                    return ops
            if case["sdvars"] and rng.random() < 0.5:
                v = rng.choice(case["sdvars"])
                d = v["default"]
                nv = (not d) if isinstance(d, bool) else d + "x" if isinstance(d, str) else rng.choice([0, 1.5, -3, 42])
                if not do(["sd_var", v["name"], nv]):
                    return ops
            if self.other is not None and case["companion"]["runs"] and rng.random() < 0.6:
                if not do(["other_period"]):
                    return ops
            if not do(["on_enable"]):
                return ops
            tm = 0
            late = rng.random() < 0.3
            if late:
                tm = period * rng.choice([3, 10, 60]) if not grid else GRID * rng.choice([4, 64, 200])
                if rng.random() < 0.1:
                    tm = rng.choice([20000, 70000]) * 1000000        # the period's clock already shows many hours
                    self.ev("period-clock-of-many-hours")
                self.ev("late-first-iteration")
            style = rng.choice(["fixed", "fixed", "jitter", "random", "land"])
            for j in range(rng.choice([5, 20, 60, 150])):
                if j or late:
                    pass
                if not do(["iter", tm]):
                    return ops
                if timed and rng.random() < 0.03:
                    # somebody edits a duration on the dashboard while the period is running: it counts from the next on_enable()
                    st_ = rng.choice(timed)
                    v_ = GRID * rng.choice([0, 1, 3, 8]) if grid else rng.choice([0, period, 3 * period, rng.randrange(1, 5 * period)])
                    self.ev("dashboard-edited-while-the-period-runs")
                    if not do(["sd_dur", st_["name"], v_]):
                        return ops
                adv = period
                r = rng.random()
                if r < 0.03:
                    adv = 0
                elif r < 0.06:
                    adv = period * rng.choice([30, 100]) if not grid else GRID * 128
                    if rng.random() < 0.05:
                        adv = 7 * 10 ** 10 if not grid else GRID * 4480000        # nothing happens for 19 hours
                        self.ev("pause-of-19-hours-inside-a-period")
                elif style == "jitter" and not grid:
                    adv = max(0, period + rng.randrange(-period // 3, period // 3 + 1))
                elif style == "random":
                    adv = rng.randrange(0, 5 * period) if not grid else GRID * rng.randrange(0, 6)
                if style == "land" or rng.random() < 0.1:
                    m = self.models[0]
                    if m.cur is not None and m.entry and m.entry["has_run"] and m.st[m.cur]["timed"]:
                        exp = m.entry["s"] + m.entry["d"]
                        a = exp + (0 if grid else rng.choice([0, 0, -1, 1])) - tm
                        if 0 <= a <= 40 * period and (not grid or a % GRID == 0):
                            adv = a
                tm += adv
            if rng.random() < 0.8:
                if not do(["on_disable"]):
                    return ops
        return ops

    def nontrivial(self):
        return (self.periods >= 2 or self.reentered) and self.hops >= 1


class _Failed:
    """Stand-in for a Driver whose mode could not even be constructed."""
    def __init__(self, ex):
        self.events = {}
        self.violation = {"first": "construction-raised", "detail": f"constructing the mode raised {ex!r}", "op": None}

    def nontrivial(self):
        return False


def _run_one(case, acc, ops=None):
    try:
        d = Driver(case, acc)
    except Exception as ex:  # noqa  -- every generated mode is well-formed
        return _Failed(ex), ops or []
    if ops is None:
        ops = d.run_generated(random.Random(case["hseed"]))
    else:
        for op in ops:
            if not d.apply(op):
                break
    return d, ops


def run_shard(spec):
    import hal.simulation as hs
    hs.pauseTiming()          # simulated time stands still unless a case moves it (as in a unit-test / simulator session)
    rng = random.Random(spec["seed"])
    acc = Acc()
    for i in range(spec["n"]):
        case = gen_case(rng, f"M{spec['seed']:x}x{i}")
        case["hist"] = [spec["seed"], i]
        d, ops = _run_one(case, acc)
        acc.evaluations += 1
        for k, n in d.events.items():
            acc.ev(k, n)
        if d.nontrivial():
            acc.nontrivial.add(stable_hash([case["states"], case["script"], ops]))
        if d.violation is not None:
            c = dict(case)
            c["ops"] = ops
            acc.violation("C15/" + d.violation["first"], d.violation["detail"], c, d.violation)
        if len(acc.samples) < 2 and d.nontrivial():
            acc.samples.append({"states": [{k: v for k, v in s.items() if k != "doc"} for s in case["states"]],
                                "ops_head": ops[:20], "n_ops": len(ops), "events": dict(d.events)})
    return acc.result()


def replay(pid, case):
    import hal.simulation as hs
    hs.pauseTiming()
    acc = Acc()
    d, _ = _run_one(case, acc, ops=case["ops"])
    if d.violation is None and "hist" in case:
        # not reproducible alone: repeat it behind the cases that preceded it in its shard
        seed, idx = case["hist"]
        rng = random.Random(seed)
        for i in range(idx):
            _run_one(gen_case(rng, f"M{seed:x}x{i}"), Acc())
        d, _ = _run_one(case, Acc(), ops=case["ops"])
        if d.violation is not None:
            d.violation["needs_history"] = f"only behind the {idx} cases generated before it from shard seed {seed}"
    if d.violation is None:
        return None
    v = dict(d.violation)
    v["key"] = "C15/" + v["first"]
    v["what"] = v["detail"]
    return v
