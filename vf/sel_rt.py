"""Recorder for the generated autonomous-mode packages of C14."""
LOG = []
FAIL_CTOR = set()


def ev(kind, ident, arg=None):
    LOG.append((kind, ident, arg))
    if kind == "ctor" and ident in FAIL_CTOR:
        raise RuntimeError(f"injected constructor failure in {ident}")
