"""Recorder for the generated autonomous-mode packages of C14."""
LOG = []
FAIL_CTOR = set()
FAIL_KIND = {}       # ident -> "base": the failure is not an Exception subclass (a careless sys.exit() in user code)


class Fatal(BaseException):
    """Not an Exception subclass."""


def ev(kind, ident, arg=None):
    LOG.append((kind, ident, arg))
    if kind == "ctor" and ident in FAIL_CTOR:
        if FAIL_KIND.get(ident) == "base":
            raise Fatal(f"injected constructor failure in {ident}")
        if FAIL_KIND.get(ident) == "type":
            raise TypeError(f"injected constructor failure in {ident}")
        raise RuntimeError(f"injected constructor failure in {ident}")
