"""Small pieces shared by all engines."""
from __future__ import annotations

from .runner import stable_hash  # noqa: F401


class Acc:
    def __init__(self):
        self.evaluations = 0
        self.checks = 0
        self.events = {}
        self.nontrivial = set()
        self.samples = []
        self.violations = []
        self.vcounts = {}
        self.extra = {}

    def ev(self, kind, n=1):
        self.events[kind] = self.events.get(kind, 0) + n

    def violation(self, key, what, case, detail):
        self.vcounts[key] = self.vcounts.get(key, 0) + 1
        if sum(1 for v in self.violations if v["key"] == key) < 5:
            self.violations.append({"key": key, "what": what, "case": case, "detail": detail})

    def result(self):
        return {"evaluations": self.evaluations, "oracle_checks": self.checks, "events": self.events,
                "nontrivial": sorted(self.nontrivial), "samples": self.samples[:5],
                "violations": self.violations, "violation_counts": self.vcounts, "extra": self.extra}


