"""C09 - tunables: per-instance NetworkTables values at the documented key, last-writer register."""
from __future__ import annotations

import os
import random

from .common import Acc, stable_hash

PROPERTIES = {"C09": "tunables"}
RULE = {"C09": "generated owner classes with 1-6 tunables (defaults of every supported type incl. bytes, struct, arrays, type-hinted "
               "empty sequences in three spellings; subtable; writeDefault) bound directly with setup_tunables(obj, N, prefix) for "
               "prefix in {components, autonomous, None} or through a real MagicRobot (component / autonomous mode / robot itself); "
               "1-3 instances of one class under different names; optional pre-existing topic value; then a random interleaving of "
               "python writes/reads and NetworkTables-side writes/reads through independent publishers/subscribers.  Non-trivial = "
               ">=2 tunables and >=1 NetworkTables-side write observed from python and >=1 python write observed from "
               "NetworkTables; distinct = hash of (definition, history)."}
RULE["C09"] += '  Also: owners that are StateMachines or falsy objects, hints on a base class, inherited and redefined tunables, nearly-equal pre-existing struct values (compared by field), a second object bound under a used name.'
REQUIRED = {"C09": {"hundreds-of-objects-bound-under-one-name": 3, "struct-tunable-advanced-by-a-tiny-step": 20, "instances-that-compare-equal": 100, "spelling:name-colon-tunable-of-T": 50, "tunables-on-a-base-robot-class": 10, "new-object-bound-under-a-new-name": 50, "new-object-at-the-address-of-the-collected-one": 5, "pre-existing-value-published-with-setDefault": 20, "falsy-owner": 100, "type-hint-on-base-class": 20, "writeDefault-true-overwrites-nearly-equal-struct": 10, "type:boolean": 50, "type:int": 50, "type:double": 50, "type:string": 50, "type:raw": 20, "type:struct:Rotation2d": 20,
                    "type:boolean[]": 20, "type:int[]": 20, "type:double[]": 20, "type:string[]": 20, "type:struct:Rotation2d[]": 10,
                    "empty-hinted": 30, "writeDefault-true-overwrites": 50, "writeDefault-false-preserves": 50, "writeDefault-false-preserves-falsy": 10, "subtable": 100, "redefines-inherited-tunable": 30, "base-class-instance-bound-first": 30, "statemachine-owner": 50, "negative-duration-value": 30,
                    "rebound-under-used-name": 50,
                    "owner:components": 100, "owner:autonomous": 50, "owner:root": 50, "via-magicrobot": 30,
                    "py-read-after-nt-write": 500, "nt-read-after-py-write": 500, "two-instances-independent": 100}}
ASSUMPTIONS = {"C09": ["values written are always of the topic's own type (cross-type writes are rejected by NetworkTables itself)",
                       "local NetworkTables accepts writes with equal timestamps (clock paused)"]}

KINDS = ["bool", "int", "float", "str", "bytes", "rot", "bool[]", "int[]", "float[]", "str[]", "rot[]",
         "empty:int", "empty:float", "empty:str", "empty:bool", "hintfloat", "hintfloat[]"]
TYPE_STR = {"bool": "boolean", "int": "int", "float": "double", "str": "string", "bytes": "raw", "rot": "struct:Rotation2d",
            "bool[]": "boolean[]", "int[]": "int[]", "float[]": "double[]", "str[]": "string[]", "rot[]": "struct:Rotation2d[]",
            "empty:int": "int[]", "empty:float": "double[]", "empty:str": "string[]", "empty:bool": "boolean[]",
            # a type hint given together with a non-empty default of another (int) type: the hint is what was asked for
            "hintfloat": "double", "hintfloat[]": "double[]"}


def shards(pid, tier, seed):
    if tier == "quick":
        return [{"n": 120} for _ in range(12)]
    return [{"n": 2000} for _ in range(64)]


def value_of(kind, i):
    """i-th value of a kind (i=0 is the default)."""
    from wpimath.geometry import Rotation2d
    base = kind.split(":")[1] + "[]" if kind.startswith("empty:") else kind
    if kind.startswith("empty:") and i == 0:
        return []
    if kind == "hintfloat":
        return 0 if i == 0 else i * 0.5 + 0.25          # int default, float values afterwards
    if kind == "hintfloat[]":
        return [0, 1] if i == 0 else [i * 0.5, 2.25][: 1 + i % 2]
    if base == "bool":
        return i % 2 == 1
    if base == "int":
        return i * 7 - 3
    if base == "float":
        return i * 0.5 + 0.25
    if base == "str":
        return f"v{i}" if i % 3 else ""
    if base == "bytes":
        return bytes([i % 256, 1, 2]) if i % 3 else b"\x00"
    if base == "rot":
        return Rotation2d(i * 0.25)
    if base == "bool[]":
        return [i % 2 == 0, True, False][: 1 + i % 3]
    if base == "int[]":
        return [i, -i, 5][: 1 + i % 3]
    if base == "float[]":
        return [i * 0.5, 2.0][: 1 + i % 2]
    if base == "str[]":
        return [f"s{i}", ""][: 1 + i % 2]
    if base == "rot[]":
        return [Rotation2d(i * 0.125)] * (1 + i % 2)
    raise ValueError(kind)


# (no empty struct array: ntcore's struct-array subscriber itself reads a zero-length value as "no value" and returns its
#  default - below this library, probed with an independent subscriber)
FALSY = {"bool": False, "int": 0, "float": 0.0, "str": "", "bytes": b"", "bool[]": [], "int[]": [], "float[]": [], "str[]": []}


def pre_value(t, ii):
    """Pre-existing topic value of tunable t for instance ii (sometimes a falsy one: 0, '', [] ... must be preserved too)."""
    base = t["kind"].split(":")[1] + "[]" if t["kind"].startswith("empty:") else t["kind"]
    base = {"hintfloat": "float", "hintfloat[]": "float[]"}.get(base, base)
    if t.get("pre_falsy") and base in FALSY and norm(FALSY[base]) != norm(value_of(t["kind"], 0)):
        return FALSY[base]
    if t.get("pre_near") and base in ("rot", "rot[]"):
        # a pre-existing struct value that the struct's own (tolerance-based) == calls equal to the default, but is another value
        from wpimath.geometry import Rotation2d
        import math
        d = value_of(t["kind"], 0)
        off = (2 * math.pi, 5e-10)[ii % 2]
        return Rotation2d(d.radians() + off) if base == "rot" else [Rotation2d(x.radians() + off) for x in d]
    return value_of(t["kind"], 1000 + ii)


def norm(v):
    if isinstance(v, (list, tuple)):
        return [norm(x) for x in v]
    if hasattr(v, "radians"):
        return ("rot", v.radians())          # by field: the geometry types' own == is tolerance-based
    if isinstance(v, int) and not isinstance(v, bool):
        return float(v) if False else v
    return v


def gen_case(rng, uid):
    nt = rng.choice([1, 2, 2, 3, 4, 6])
    tun = []
    for j in range(nt):
        kind = rng.choice(KINDS)
        t = {"attr": f"t{j}{uid}", "kind": kind, "writeDefault": rng.random() < 0.6, "subtable": rng.choice([None, None, "sub", "a/b"]),
             "as_tuple": rng.random() < 0.3, "spelling": rng.randrange(4), "preexisting": rng.random() < 0.4, "pre_falsy": rng.random() < 0.4,
             "overrides_inherited": rng.random() < 0.15, "pre_near": rng.random() < 0.5, "hint_on_base": rng.random() < 0.3,
             "pre_via_setDefault": rng.random() < 0.3}
        tun.append(t)
    via_robot = rng.random() < 0.2
    derived_robot = False
    if via_robot:
        owner = rng.choice(["component", "component2", "mode", "robot"])
        instances = [{"name": f"o{uid}", "prefix": {"component": "components", "component2": "components", "mode": "autonomous", "robot": None}[owner]}]
        if owner == "component2":
            # two components of one class on the same robot (`left: Shooter; right: Shooter`)
            instances.append({"name": f"p{uid}", "prefix": "components"})
        if owner == "robot":
            instances[0]["name"] = "robot"
            derived_robot = rng.random() < 0.5
            # (all three annotation spellings are generated for the robot class too - see finding F10)
    else:
        owner = "direct"
        instances = [{"name": f"o{i}{uid}", "prefix": rng.choice(["components", "components", "autonomous", None])}
                     for i in range(rng.choice([1, 2, 2, 3]))]
        if len(instances) >= 2 and rng.random() < 0.25:
            # module1 / module10 / module11: one name is a prefix of the others, all in one table
            pf = rng.choice(["components", None])
            for i_, inst_ in enumerate(instances):
                inst_["name"], inst_["prefix"] = f"m{uid}{['1', '10', '11'][i_]}", pf
    if owner != "robot" and rng.random() < 0.12:
        # `speed` on the component `speed_controller`, `auto` on an autonomous mode: the attribute's name is the beginning of
        # the owner's name or of the owner kind's table name - with a subtable between them in the key
        t_ = rng.choice(tun)
        nm_ = instances[0]["name"]
        pool_ = [nm_[:k_] for k_ in range(1, len(nm_))] + (["comp", "c", "components"] if instances[0]["prefix"] == "components" else
                                                         ["auto", "autonomous"] if instances[0]["prefix"] == "autonomous" else [])
        t_["attr"] = rng.choice(pool_)
        t_["attr_is_prefix_of_owner"] = True
        if t_["subtable"] is None:
            t_["subtable"] = rng.choice(["sub", "cfg"])
    ops = []
    counter = 1
    for _ in range(rng.choice([10, 30, 80])):
        i = rng.randrange(len(instances))
        t = rng.randrange(nt)
        k = rng.choice(["py_write", "py_read", "nt_write", "nt_read", "nt_write", "py_read"])
        if k.endswith("write"):
            counter += 1
            ops.append([k, i, t, counter])
        else:
            ops.append([k, i, t])
        if rng.random() < 0.2:
            ops.append(["adv", rng.choice([0, 1, 20000])])
    case = {"uid": uid, "owner": owner, "tunables": tun, "instances": instances, "ops": ops, "base_instance_first": rng.random() < 0.3,
            "truth": rng.choice([None, None, None, None, None, "len0", "boolFalse"]), "derived_robot": derived_robot, "eq_all": rng.random() < 0.2}
    if owner in ("direct", "component", "component2") and rng.random() < 0.3:
        # the owner is a magicbot.StateMachine: its timed state's duration is a tunable like any other
        # (/components/N/state/<state>_duration), including values a dashboard user may type that make no sense (negative)
        case["sm_owner"] = True
        case["base_instance_first"] = False
        tun.append({"attr": "ts_duration", "kind": "float", "writeDefault": False, "subtable": "state", "as_tuple": False, "spelling": 0,
                    "preexisting": rng.random() < 0.3, "pre_falsy": False, "builtin": True, "signed": True})
        for op in ops:
            if op[0] in ("py_write", "py_read", "nt_write", "nt_read") and rng.random() < 0.25:
                op[2] = len(tun) - 1
    if rng.random() < 0.3 and owner == "direct":
        # later in the process another object is bound under a name that was used before
        case["rebind"] = True
    if rng.random() < 0.3 and owner == "direct":
        case["fresh_after_gc"] = True
    if rng.random() < 0.02 and owner == "direct":
        case["rebind_many"] = True
    return case


def build_class(case, base=None):
    from typing import ClassVar, Sequence
    from magicbot import tunable
    from wpimath.geometry import Rotation2d
    elem = {"int": int, "float": float, "str": str, "bool": bool}
    ns = {"tunable": tunable, "Sequence": Sequence, "ClassVar": ClassVar, "elem": elem, "Base": base or object}
    # tunables that the owner class inherits and redefines (other default, same kind): the redefinition counts
    inh = [t for t in case["tunables"] if t.get("overrides_inherited") and not t["kind"].startswith(("empty:", "hintfloat"))]
    lines = []
    if inh or case.get("base_instance_first"):
        lines.append("class Mid(Base):")
        lines.append(f"    basetun{case['uid']} = tunable(5)")
        for t in inh:
            ns["b_" + t["attr"]] = value_of(t["kind"], 77)
            lines.append(f"    {t['attr']} = tunable(b_{t['attr']}, writeDefault={not t['writeDefault']!r})")
        lines.append("    def execute(self):\n        pass")
        lines.append("Base = Mid")
    if case.get("sm_owner"):
        from magicbot.state_machine import StateMachine, state as _st, timed_state as _ts
        ns.update({"StateMachine": StateMachine, "sm_state": _st, "sm_timed": _ts})
        lines.append("class SMBase(StateMachine, Base):" if ns["Base"] is not object else "class SMBase(StateMachine):")
        lines.append("    @sm_state(first=True)\n    def idle_state(self):\n        pass")
        lines.append("    @sm_timed(duration=0.25)\n    def ts(self):\n        pass")
        lines.append("Base = SMBase")
    hb = [t for t in case["tunables"] if t.get("hint_on_base") and t["spelling"] == 2 and t["kind"].startswith(("hintfloat", "empty:"))]
    if hb:
        # the annotation lives on a base class, the tunable is assigned in the subclass
        lines.append("class HintBase(Base):")
        for t in hb:
            if t["kind"].startswith("hintfloat"):
                lines.append(f"    {t['attr']}: {'float' if t['kind'] == 'hintfloat' else 'Sequence[float]'}")
            else:
                lines.append(f"    {t['attr']}: Sequence[{t['kind'].split(':')[1]}]")
        lines.append("Base = HintBase")
    lines.append("class Owner(Base):")
    if case.get("truth") == "len0":
        lines.append("    def __len__(self):\n        return 0")
    elif case.get("truth") == "boolFalse":
        lines.append("    def __bool__(self):\n        return False")
    if case.get("eq_all"):
        # value semantics: every instance of the class compares and hashes equal (a dataclass-like component with equal fields)
        lines.append("    def __eq__(self, o):\n        return type(o) is type(self)")
        lines.append("    def __hash__(self):\n        return 11")
    for t in case["tunables"]:
        kw = f"writeDefault={t['writeDefault']!r}"
        if t["subtable"]:
            kw += f", subtable={t['subtable']!r}"
        a = t["attr"]
        if t.get("builtin"):
            continue            # created by the timed_state decorator
        if t["kind"].startswith("hintfloat"):
            hint = "float" if t["kind"] == "hintfloat" else "Sequence[float]"
            ns["d_" + a] = value_of(t["kind"], 0)
            if t["spelling"] == 0:
                lines.append(f"    {a} = tunable[{hint}](d_{a}, {kw})")
            elif t["spelling"] == 1:
                lines.append(f"    {a}: ClassVar[tunable[{hint}]] = tunable(d_{a}, {kw})")
            elif t["spelling"] == 3:
                lines.append(f"    {a}: tunable[{hint}] = tunable(d_{a}, {kw})")        # the plain `name: tunable[T] = tunable(...)` spelling
            elif t in hb:
                lines.append(f"    {a} = tunable(d_{a}, {kw})")
            else:
                lines.append(f"    {a}: {hint} = tunable(d_{a}, {kw})")
        elif t["kind"].startswith("empty:"):
            et = t["kind"].split(":")[1]
            empty = "()" if t["as_tuple"] else "[]"
            if t["spelling"] == 0:
                lines.append(f"    {a} = tunable[Sequence[{et}]]({empty}, {kw})")
            elif t["spelling"] == 1:
                lines.append(f"    {a}: ClassVar[tunable[list[{et}]]] = tunable({empty}, {kw})")
            elif t["spelling"] == 3:
                lines.append(f"    {a}: tunable[Sequence[{et}]] = tunable({empty}, {kw})")
            elif t in hb:
                lines.append(f"    {a} = tunable({empty}, {kw})")
            else:
                lines.append(f"    {a}: Sequence[{et}] = tunable({empty}, {kw})")
        else:
            ns["d_" + a] = tuple(value_of(t["kind"], 0)) if (t["as_tuple"] and t["kind"].endswith("[]")) else value_of(t["kind"], 0)
            lines.append(f"    {a} = tunable(d_{a}, {kw})")
    lines.append("    def execute(self):\n        pass")
    lines.append("    def createObjects(self):\n        pass")
    lines.append("    def teleopPeriodic(self):\n        pass")
    # dont_inherit: this module's `from __future__ import annotations` must not turn the generated annotations into strings
    exec(compile("\n".join(lines), "<generated owner>", "exec", dont_inherit=True), ns)
    if "Mid" in ns:
        ns["Owner"]._vf_mid = ns["Mid"]
    return ns["Owner"]


def topic_path(inst, t):
    prefix = f"/{inst['prefix']}/{inst['name']}" if inst["prefix"] else f"/{inst['name']}"
    return f"{prefix}/{t['subtable']}/{t['attr']}" if t["subtable"] else f"{prefix}/{t['attr']}"


class Channel:
    """Independent publisher + subscriber on one topic, typed from the harness's own table."""

    def __init__(self, path, kind):
        import ntcore
        from wpimath.geometry import Rotation2d
        inst = ntcore.NetworkTableInstance.getDefault()
        base = kind.split(":")[1] + "[]" if kind.startswith("empty:") else kind
        base = {"hintfloat": "float", "hintfloat[]": "float[]"}.get(base, base)
        self.base = base
        self.topic_generic = inst.getTopic(path)
        if base == "rot":
            self.topic = inst.getStructTopic(path, Rotation2d)
        elif base == "rot[]":
            self.topic = inst.getStructArrayTopic(path, Rotation2d)
        else:
            self.topic = {"bool": inst.getBooleanTopic, "int": inst.getIntegerTopic, "float": inst.getDoubleTopic,
                          "str": inst.getStringTopic, "bytes": inst.getRawTopic, "bool[]": inst.getBooleanArrayTopic,
                          "int[]": inst.getIntegerArrayTopic, "float[]": inst.getDoubleArrayTopic, "str[]": inst.getStringArrayTopic}[base](path)
        self.pub = None
        self.sub = None

    def publisher(self):
        if self.pub is None:
            self.pub = self.topic.publish("raw") if self.base == "bytes" else self.topic.publish()
        return self.pub

    def subscriber(self):
        if self.sub is None:
            from wpimath.geometry import Rotation2d
            d = {"bool": False, "int": -999, "float": -999.0, "str": "<none>", "bytes": b"<none>", "rot": Rotation2d(-9.0),
                 "bool[]": [True] * 7, "int[]": [-999], "float[]": [-999.0], "str[]": ["<none>"], "rot[]": [Rotation2d(-9.0)]}[self.base]
            self.none = d
            self.sub = self.topic.subscribe("raw", d) if self.base == "bytes" else self.topic.subscribe(d)
        return self.sub

    def read(self):
        """Current value, or None when the topic holds no value (the subscriber's sentinel default comes back)."""
        v = self.subscriber().get()
        if self.base == "bool":
            return v if self.topic_generic.exists() else None
        return None if norm(v) == norm(self.none) else v

    def close(self):
        for h in (self.pub, self.sub):
            if h is not None:
                h.close()


def run_case(acc, case):
    n0 = len(acc.violations)
    try:
        _run_case(acc, case)
    except Exception as e:  # noqa
        if len(acc.violations) == n0:
            import traceback
            tb = traceback.extract_tb(e.__traceback__)
            lib = [f for f in tb if "/magicbot/" in f.filename or "/robotpy_ext/" in f.filename]
            if not lib:
                raise          # a fault of the harness itself: let the worker die loudly
            acc.violation("C09/access-raised", f"reading or writing a bound tunable raised {e!r} in {lib[-1].name}", case, {})


def _run_case(acc, case):
    import hal.simulation as hs
    from magicbot.magic_tunable import setup_tunables
    acc.evaluations += 1
    try:
        cls = build_class(case)
    except Exception as e:  # noqa
        acc.violation("C09/definition-rejected", f"defining tunables of supported types raised {e!r}", case, {})
        return
    tun = case["tunables"]
    chans = {}
    reg = {}
    objs = []
    objs_extra = []
    nt_seen_py = py_seen_nt = 0
    try:
        for ii, inst in enumerate(case["instances"]):
            for ti, t in enumerate(tun):
                ch = Channel(topic_path(inst, t), t["kind"])
                chans[(ii, ti)] = ch
                if t["preexisting"]:
                    v = pre_value(t, ii)
                    if t.get("pre_via_setDefault"):
                        # another NetworkTables client published it with setDefault(): a value all the same
                        ch.publisher().setDefault(v)
                        acc.ev("pre-existing-value-published-with-setDefault")
                    else:
                        ch.publisher().set(v)
        # ---- bind
        try:
            if case["owner"] == "direct":
                mid = getattr(cls, "_vf_mid", None)
                if mid is not None and case.get("base_instance_first"):
                    # an object of the base class is bound first: what is remembered about the base must not hide the
                    # tunables the derived class adds
                    b = mid()
                    setup_tunables(b, "b" + case["uid"])
                    objs_extra.append(b)
                    acc.ev("base-class-instance-bound-first")
                for inst in case["instances"]:
                    o = cls()
                    if case.get("sm_owner"):
                        import logging
                        o.logger = logging.getLogger(inst["name"])
                        acc.ev("statemachine-owner")
                    setup_tunables(o, inst["name"], inst["prefix"]) if inst["prefix"] != "components" or stable_hash(inst["name"]) % 2 \
                        else setup_tunables(o, inst["name"])
                    objs.append(o)
            else:
                r = bind_via_robot(case, cls)
                objs.extend(r if isinstance(r, list) else [r])
                acc.ev("via-magicrobot")
                if case.get("derived_robot"):
                    acc.ev("tunables-on-a-base-robot-class")
                if isinstance(r, list):
                    acc.ev("via-magicrobot-two-components-one-class")
        except Exception as e:  # noqa
            import traceback
            kinds = sorted({t["kind"] for t in tun})
            tb = traceback.extract_tb(e.__traceback__)
            where = tb[-1].name if tb else "?"
            key = "C09/setup-raised"
            if any(k == "bytes" for k in kinds) and isinstance(e, TypeError):
                key = "C09/raw-tunable-setup-typeerror"
            acc.violation(key, f"binding tunables of kinds {kinds} raised {e!r} in {where}", case, {})
            return
        # ---- initial values and types
        for ii, inst in enumerate(case["instances"]):
            acc.ev("owner:" + (inst["prefix"] or "root"))
            for ti, t in enumerate(tun):
                ch = chans[(ii, ti)]
                if t["preexisting"] and not t["writeDefault"]:
                    want = pre_value(t, ii)
                    acc.ev("writeDefault-false-preserves")
                    if not want and not hasattr(want, "radians"):
                        acc.ev("writeDefault-false-preserves-falsy")
                else:
                    want = value_of(t["kind"], 0)
                    if t["preexisting"]:
                        acc.ev("writeDefault-true-overwrites")
                        if t.get("pre_near") and t["kind"] in ("rot", "rot[]"):
                            acc.ev("writeDefault-true-overwrites-nearly-equal-struct")
                reg[(ii, ti)] = want
                ts = ch.topic_generic.getTypeString()
                acc.checks += 3
                acc.ev("type:" + TYPE_STR[t["kind"]])
                if t["kind"].startswith("empty:"):
                    acc.ev("empty-hinted")
                if t["subtable"]:
                    acc.ev("subtable")
                if t.get("attr_is_prefix_of_owner"):
                    acc.ev("attribute-name-begins-the-owner-name-or-table")
                if t.get("hint_on_base") and t["spelling"] == 2 and t["kind"].startswith(("hintfloat", "empty:")):
                    acc.ev("type-hint-on-base-class")
                if case.get("truth"):
                    acc.ev("falsy-owner")
                if case.get("eq_all") and len(case["instances"]) >= 2:
                    acc.ev("instances-that-compare-equal")
                if t["spelling"] == 3 and t["kind"].startswith(("hintfloat", "empty:")):
                    acc.ev("spelling:name-colon-tunable-of-T")
                if t.get("overrides_inherited") and not t["kind"].startswith("empty:"):
                    acc.ev("redefines-inherited-tunable")
                path = topic_path(inst, t)
                if ts != TYPE_STR[t["kind"]]:
                    acc.violation("C09/topic-type", f"{path}: topic type {ts!r}, expected {TYPE_STR[t['kind']]!r} for a {t['kind']} tunable"
                                  + ("" if ch.topic_generic.exists() else " (topic does not exist at the documented key)"), case, {})
                    return
                got = getattr(objs[ii], t["attr"])
                if norm(got) != norm(want):
                    acc.violation("C09/initial-value", f"{path}: attribute reads {got!r} after setup, expected {want!r} "
                                  f"(writeDefault={t['writeDefault']}, pre-existing={t['preexisting']})", case, {})
                    return
                ntv = ch.read()
                if norm(ntv) != norm(want):
                    acc.violation("C09/initial-value-nt", f"{path}: NetworkTables holds {ntv!r} after setup, expected {want!r} "
                                  f"(writeDefault={t['writeDefault']}, pre-existing={t['preexisting']})", case, {})
                    return
        # ---- history
        last_writer = {}
        for op in case["ops"]:
            k = op[0]
            if k == "adv":
                if op[1]:
                    hs.stepTimingAsync(op[1])
                continue
            ii, ti = op[1], op[2]
            t = tun[ti]
            ch = chans[(ii, ti)]
            path = topic_path(case["instances"][ii], t)
            if k in ("py_write", "nt_write") and t.get("signed") and op[3] % 2:
                v = -value_of(t["kind"], op[3])
                acc.ev("negative-duration-value")
                if k == "py_write":
                    setattr(objs[ii], t["attr"], v)
                else:
                    ch.publisher().set(v)
                reg[(ii, ti)] = v
                last_writer[(ii, ti)] = "py" if k == "py_write" else "nt"
                continue
            if k == "py_write":
                v = value_of(t["kind"], op[3])
                if t["kind"] == "rot" and op[3] % 3 == 0 and hasattr(reg.get((ii, ti)), "radians"):
                    # a struct value advanced by a step far below the struct's own == tolerance (an integrating controller)
                    from wpimath.geometry import Rotation2d as _R
                    v = _R(reg[(ii, ti)].radians() + 3e-10)
                    acc.ev("struct-tunable-advanced-by-a-tiny-step")
                setattr(objs[ii], t["attr"], tuple(v) if (t["as_tuple"] and isinstance(v, list)) else v)
                reg[(ii, ti)] = v
                last_writer[(ii, ti)] = "py"
            elif k == "nt_write":
                v = value_of(t["kind"], op[3])
                ch.publisher().set(v)
                reg[(ii, ti)] = v
                last_writer[(ii, ti)] = "nt"
            elif k == "py_read":
                got = getattr(objs[ii], t["attr"])
                acc.checks += 1
                if last_writer.get((ii, ti)) == "nt":
                    acc.ev("py-read-after-nt-write")
                    py_seen_nt += 1
                if norm(got) != norm(reg[(ii, ti)]):
                    acc.violation("C09/stale-read", f"{path}: attribute reads {got!r}, latest value set ({last_writer.get((ii, ti), 'setup')} side) is {reg[(ii, ti)]!r}", case, {})
                    return
            elif k == "nt_read":
                got = ch.read()
                acc.checks += 1
                if last_writer.get((ii, ti)) == "py":
                    acc.ev("nt-read-after-py-write")
                    nt_seen_py += 1
                if norm(got) != norm(reg[(ii, ti)]):
                    acc.violation("C09/stale-nt", f"{path}: NetworkTables holds {got!r}, latest value set ({last_writer.get((ii, ti), 'setup')} side) is {reg[(ii, ti)]!r}", case, {})
                    return
        # ---- a new object bound under a name that was used before: the documented start-up rule applies again
        if case.get("rebind") and not case.get("sm_owner"):
            ii = 0
            inst = case["instances"][ii]
            o2 = cls()
            setup_tunables(o2, inst["name"], inst["prefix"])
            objs_extra.append(objs[ii])
            objs[ii] = o2
            acc.ev("rebound-under-used-name")
            for ti, t in enumerate(tun):
                want = value_of(t["kind"], 0) if t["writeDefault"] else reg[(ii, ti)]
                reg[(ii, ti)] = want
                got = getattr(o2, t["attr"])
                ntv = chans[(ii, ti)].read()
                acc.checks += 2
                if norm(got) != norm(want) or norm(ntv) != norm(want):
                    acc.violation("C09/rebind-initial-value", f"{topic_path(inst, t)}: a second object bound under the same name reads {got!r} "
                                  f"(NetworkTables {ntv!r}), expected {want!r} (writeDefault={t['writeDefault']}, value before: {reg[(ii, ti)]!r})", case, {})
                    return
        # ---- an object is discarded and a NEW object of the class (quite possibly at the same address) is bound under
        #      ANOTHER name: it must talk to its own topics, and the old ones keep their values
        if case.get("fresh_after_gc") and case["owner"] == "direct" and not case.get("sm_owner"):
            import gc
            ii = len(case["instances"]) - 1
            old_inst = case["instances"][ii]
            old = objs[ii]
            for ti, t in enumerate(tun):
                getattr(old, t["attr"])                       # the object was in use right up to the end
            old_id = id(old)
            for e_ in getattr(old, "_tunables", {}).values():
                e_.close()
            objs[ii] = None
            o = None             # (the creation loop's variable still names the last instance)
            del old
            gc.collect()
            # take the new object that lands at the discarded one's address if the allocator hands it out again
            o3, spare = None, []
            for _ in range(2000):
                x_ = cls()
                if id(x_) == old_id:
                    o3 = x_
                    break
                spare.append(x_)
            if o3 is None:
                o3 = spare.pop()
            del spare
            new_inst = {"name": old_inst["name"] + "_n", "prefix": old_inst["prefix"]}
            setup_tunables(o3, new_inst["name"], new_inst["prefix"])
            objs_extra.append(o3)
            acc.ev("new-object-bound-under-a-new-name")
            if id(o3) == old_id:
                acc.ev("new-object-at-the-address-of-the-collected-one")
            for ti, t in enumerate(tun):
                ch_new = Channel(topic_path(new_inst, t), t["kind"])
                chans[("new", ti)] = ch_new
                v = value_of(t["kind"], 500 + ti)
                try:
                    setattr(o3, t["attr"], v)
                    got = getattr(o3, t["attr"])
                except Exception as ex:  # noqa
                    acc.violation("C09/access-raised", f"reading or writing a bound tunable raised {ex!r}", case, {})
                    return
                acc.checks += 3
                if norm(got) != norm(v) or norm(ch_new.read()) != norm(v):
                    acc.violation("C09/new-object-wrong-topic", f"{topic_path(new_inst, t)}: after writing {v!r} through the new object it reads "
                                  f"{got!r}, its topic holds {ch_new.read()!r}", case, {})
                    return
                # (a topic nobody publishes any more loses its value - ntcore, not this library: only topics the harness itself
                #  still publishes are compared)
                if chans[(ii, ti)].pub is not None and norm(chans[(ii, ti)].read()) != norm(reg[(ii, ti)]):
                    acc.violation("C09/new-object-wrong-topic", f"{topic_path(old_inst, t)} (the discarded object's topic) changed to "
                                  f"{chans[(ii, ti)].read()!r} when the new object {new_inst['name']} was written", case, {})
                    return
            for k_ in [k_ for k_ in reg if k_[0] == ii]:
                del reg[k_]
        # ---- hundreds of objects bound under one name, one after the other (a test suite creating robot after robot)
        if case.get("rebind_many") and case["owner"] == "direct" and not case.get("sm_owner") and objs[0] is not None:
            inst = case["instances"][0]
            for _ in range(530):
                o_ = cls()
                setup_tunables(o_, inst["name"], inst["prefix"])
                objs_extra[:] = objs_extra[-3:] + [o_]
            objs_extra.append(objs[0])
            objs[0] = o_
            acc.ev("hundreds-of-objects-bound-under-one-name")
            for ti, t in enumerate(tun):
                v = value_of(t["kind"], 700 + ti)
                try:
                    setattr(o_, t["attr"], v)
                    got = getattr(o_, t["attr"])
                except Exception as ex:  # noqa
                    acc.violation("C09/access-raised", f"reading or writing a bound tunable raised {ex!r}", case, {})
                    return
                reg[(0, ti)] = v
                acc.checks += 2
                if norm(got) != norm(v) or norm(chans[(0, ti)].read()) != norm(v):
                    acc.violation("C09/rebind-initial-value", f"{topic_path(inst, t)}: the 531st object bound under this name reads {got!r} after writing {v!r} "
                                  f"(NetworkTables {chans[(0, ti)].read()!r})", case, {})
                    return
        # ---- instances never share a value: final sweep over every (instance, attribute)
        for (ii, ti), want in reg.items():
            got = getattr(objs[ii], tun[ti]["attr"])
            acc.checks += 1
            if norm(got) != norm(want):
                acc.violation("C09/instances-share-value", f"{topic_path(case['instances'][ii], tun[ti])}: final read {got!r}, expected {want!r}", case, {})
                return
        if len(case["instances"]) >= 2:
            acc.ev("two-instances-independent")
        if len(tun) >= 2 and nt_seen_py and py_seen_nt:
            acc.nontrivial.add(stable_hash(case))
    finally:
        for ch in chans.values():
            ch.close()
        for o in objs + objs_extra:
            for e in getattr(o, "_tunables", {}).values():
                try:
                    e.close()
                except Exception:  # noqa
                    pass


_ROBOT_CLS = {}


def bind_via_robot(case, cls):
    """Bind through a real MagicRobot.robotInit(): as a component, as an autonomous mode, or as the robot itself."""
    import os
    import shutil
    import sys
    import tempfile
    import magicbot
    import hal.simulation as hs
    from wpilib.simulation import DriverStationSim
    from .robot_build import purge_autonomous
    owner = case["owner"]
    name = case["instances"][0]["name"]
    root = tempfile.mkdtemp(prefix="vf-tun-")
    purge_autonomous()
    sys.path.insert(0, root)
    try:
        body = {"createObjects": lambda self: None, "teleopPeriodic": lambda self: None}
        if owner == "component":
            body["__annotations__"] = {name: cls}
        elif owner == "component2":
            body["__annotations__"] = {name: cls, case["instances"][1]["name"]: cls}
        elif owner == "robot":
            pass
        elif owner == "mode":
            _ROBOT_CLS["mode_cls"] = cls
            pkg = os.path.join(root, "autonomous")
            os.makedirs(pkg)
            open(os.path.join(pkg, "__init__.py"), "w").close()
            with open(os.path.join(pkg, "m.py"), "w") as f:
                f.write("from vf import p_tunable as pt\n\n\n"
                        "class M(pt._ROBOT_CLS['mode_cls']):\n"
                        f"    MODE_NAME = {name!r}\n"
                        "    def __init__(self, *a, **k):\n        super().__init__(*a, **k)\n        pt._ROBOT_CLS['mode_obj'] = self\n"
                        "    def on_enable(self):\n        pass\n    def on_iteration(self, tm):\n        pass\n    def on_disable(self):\n        pass\n")
        hs.resetGlobalHandles()
        DriverStationSim.resetData()
        if owner == "robot":
            R = build_class(case, base=magicbot.MagicRobot)
            if case.get("derived_robot"):
                # the tunables (annotated ones included) are declared on a base robot class shared by several robots
                R = type("DR" + case["uid"], (R,), {})
        else:
            R = type("TR" + case["uid"], (magicbot.MagicRobot,), body)
        robot = R()
        robot.robotInit()
        if owner == "component":
            return getattr(robot, name)
        if owner == "component2":
            return [getattr(robot, name), getattr(robot, case["instances"][1]["name"])]
        if owner == "robot":
            return robot
        return _ROBOT_CLS["mode_obj"]     # the mode registered itself when the selector instantiated it
    finally:
        try:
            sys.path.remove(root)
        except ValueError:
            pass
        purge_autonomous()
        shutil.rmtree(root, ignore_errors=True)


def run_shard(spec):
    import hal.simulation as hs
    hs.pauseTiming()
    rng = random.Random(spec["seed"])
    acc = Acc()
    for i in range(spec["n"]):
        case = gen_case(rng, f"{spec['seed'] % 46656:x}x{i:x}")
        case["hist"] = [spec["seed"], i]
        run_case(acc, case)
        if i < 2:
            acc.samples.append({"owner": case["owner"], "instances": case["instances"],
                                "tunables": [{k: v for k, v in t.items()} for t in case["tunables"]], "ops_head": case["ops"][:10]})
    return acc.result()


def replay(pid, case):
    import hal.simulation as hs
    hs.pauseTiming()
    acc = Acc()
    if "hist" not in case:
        run_case(acc, case)
    else:
        # the case is repeated behind the cases that preceded it in its shard (owner classes of earlier cases carry the same
        # class names; whatever the library remembers about them is part of the history).  It is NOT tried alone first:
        # that run would itself become part of the history
        seed, idx = case["hist"]
        rng = random.Random(seed)
        for i in range(idx):
            run_case(Acc(), gen_case(rng, f"{seed % 46656:x}x{i:x}"))
        acc = Acc()
        run_case(acc, case)
        if acc.violations and idx:
            acc.violations[0]["history"] = f"replayed behind the {idx} cases generated before it from shard seed {seed}"
    return acc.violations[0] if acc.violations else None
