"""C16 - NotifierDelay: the k-th wait() returns at max(t0 + k*P, end of the loop body), alarms stay on the grid."""
from __future__ import annotations

import os
import random
import threading
import time

from .common import Acc, stable_hash

PROPERTIES = {"C16": "NotifierDelay"}
RULE = {"C16": "threaded workload: a worker thread runs `with NotifierDelay(P) as d: ... d.wait()` while the harness advances the "
               "paused FPGA clock by the scripted loop-body duration, lets the worker enter wait(), then moves the clock exactly "
               "to the alarm the delay programmed (seen through a recording hal proxy) and holds it there until the worker "
               "reports the FPGA time at which wait() returned; periods are whole microseconds in [1 ms, 100 ms] (and a few of 1 s - 2.5 s) given as n/1e6; "
               "bodies: 0, <<P, P-1, P, P+1, several P, random.  Conversion sweep: every whole-microsecond period in the range "
               "(first programmed alarm == t0 + n).  Non-trivial = run with >=1 overrun and >=1 on-time wait; distinct = hash of "
               "(P, bodies)."}
REQUIRED = {"C16": {"released-before-the-first-wait": 3, "period-of-a-second-or-more": 3, "wait-on-time": 500, "wait-after-overrun": 100, "catch-up-wait": 50, "alarm-on-grid": 1000, "freed-wait-immediate": 50,
                    "release-observed": 50, "release-on-exception-exit": 10, "clock-around-2^32us": 5,
                    "conversion-period-checked": 5000}}
ASSUMPTIONS = {"C16": ["the HAL simulator's waitForNotifierAlarm returns when the simulated clock reaches the programmed alarm (level-triggered)",
                       "sub-microsecond periods are not generated (the clock cannot represent the grid)",
                       "the harness steps the clock to the alarm it sees programmed (the first one at creation); an implementation that arms its notifier later cannot be driven and gets no verdict (inconclusive), never a violation for that reason alone"]}


def shards(pid, tier, seed):
    if tier == "quick":
        return ([{"mode": "threaded", "n": 40} for _ in range(4)] + [{"mode": "threaded", "n": 12, "start_at": 2 ** 32 - 400000}]
                + [{"mode": "threaded", "n": 1, "marathon": 70000, "start_at": 2 * 10 ** 11}]     # one delay object that waits 70 000 times (23 min of a 50 Hz loop), on a robot that has been up for 55 h
                + [{"mode": "convert", "lo": 1000, "hi": 100000, "stride": 9, "offset": i} for i in range(2)])
    return ([{"mode": "threaded", "n": 1500} for _ in range(14)] + [{"mode": "threaded", "n": 200, "start_at": 2 ** 32 - 3000000}]
            + [{"mode": "threaded", "n": 1, "marathon": 70000}, {"mode": "threaded", "n": 1, "marathon": 70000, "start_at": 2 * 10 ** 11}]     # (right after boot, and after 55 h of uptime)
            + [{"mode": "convert", "lo": 1000 + i * 24750, "hi": min(100000, 1000 + (i + 1) * 24750 - 1), "stride": 1, "offset": 0} for i in range(4)])


def gen_case(rng):
    r = rng.random()
    if r < 0.3:
        P = rng.choice([20000, 5000, 50000, 1000, 100000, 15625, 10000])
    elif r < 0.6:
        P = rng.choice([1001, 1003, 15724, 1009, 2001, 4003, 33333, 16667, 99999])    # n/1e6 whose product falls below n
    else:
        P = rng.randrange(1000, 100001)
    if rng.random() < 0.15:
        P = rng.choice([1000000, 1500000, 2000000, 2500001, 1000001])      # a second and more (slow housekeeping loops)
    bodies = []
    for _ in range(rng.choice([5, 15, 40]) if rng.random() > 0.1 else 0):      # sometimes released before the first wait()
        r = rng.random()
        if r < 0.25:
            b = 0
        elif r < 0.45:
            b = rng.randrange(0, max(1, P // 10))
        elif r < 0.6:
            b = rng.choice([P - 1, P, P + 1])
        elif r < 0.75:
            b = rng.randrange(0, P)
        elif r < 0.9:
            b = rng.randrange(P, 4 * P)
        else:
            b = P * rng.randrange(2, 6) + rng.choice([0, 1, -1])
        bodies.append(b)
    if rng.random() < 0.1:
        # a long stretch of overruns: the loop falls more than a second behind and must still catch up on the grid
        n_over = (1200000 // P) // 2 + 5
        bodies = [rng.choice([3 * P, 2 * P + 1, 3 * P - 1]) for _ in range(min(n_over, 70))] + [0] * min(2 * n_over + 4, 150) + bodies[:5]
    if rng.random() < 0.03 and P <= 20000:
        # hundreds of (individually caught-up) overruns over the life of one delay object
        bodies = ([rng.choice([P + P // 2, 2 * P + 1])] + [0, 0, 0]) * 280
    return {"mode": "threaded", "P": P, "bodies": bodies, "after_free": rng.choice([1, 2]), "use_with": rng.random() < 0.6, "exit_exc": rng.random() < 0.4, "by_keyword": rng.random() < 0.5,
            "start_offset": rng.randrange(0, 5000),
            # two release requests on one object (free() inside the with-block, then the block is left)
            "free_in_with": rng.random() < 0.2,
            # a second delay with ANOTHER period is alive (created after this one, released at the end): an inner loop
            "other_period": rng.choice([None, None, 5000, 7001, 1000, 33333]),
            # a delay with the SAME period was released part-way through its period just before this one is created
            "pre_release": rng.choice([None, None, None, 0.3, 0.7])}


def run_threaded(acc, case):
    from . import simenv
    import robotpy_ext.misc.precise_delay as pd
    e = simenv.env()
    proxy = e.proxy
    del proxy.calls[:]
    proxy.last_init = None
    proxy.record = True
    P = case["P"]
    bodies = case["bodies"]
    e.advance(case.get("start_offset", 0))
    if case.get("start_at") and e.now() < case["start_at"]:
        e.step_to(case["start_at"])          # e.g. just below 2**32 us (71.6 min of FPGA time)
    go = threading.Semaphore(0)
    done = threading.Semaphore(0)
    rets = []
    box = {}
    stage = {"k": -1}

    class Boom(Exception):
        pass

    def loop(d):
        box["created"] = e.now()
        done.release()
        for k in range(len(bodies)):
            go.acquire()
            if stage.get("stop"):
                break                  # (a marathon that used up its wall-clock budget: the harness judges what ran so far)
            stage["k"] = k
            d.wait()
            rets.append(e.now())
            done.release()
        go.acquire()           # the harness now watches the release

    def worker():
        try:
            go.acquire()
            if case["use_with"]:
                try:
                    with pd.NotifierDelay(P / 1e6) as d:
                        box["d"] = d
                        loop(d)
                        if case.get("free_in_with"):
                            d.free()           # released by hand, and once more when the block is left
                        if case.get("exit_exc"):
                            raise Boom()       # the with-block is left through an exception
                except Boom:
                    pass
            else:
                d = pd.NotifierDelay(delay_period=P / 1e6) if case.get("by_keyword") else pd.NotifierDelay(P / 1e6)
                box["d"] = d
                loop(d)
                d.free()
            done.release()
            d = box["d"]
            for j in range(case["after_free"]):
                go.acquire()
                t = e.now()
                d.wait()
                box.setdefault("after", []).append((t, e.now()))
                done.release()
            if case["after_free"] == 2:
                d.free()       # idempotent
        except BaseException as ex:  # noqa
            box["exc"] = ex
            done.release()

    th = threading.Thread(target=worker, daemon=True)
    th.start()
    acc.evaluations += 1
    if case.get("pre_release") and not case.get("marathon"):
        # an earlier loop with the same period ends part-way through its period; the new delay owes it nothing
        pre = pd.NotifierDelay(P / 1e6)
        e.advance(int(P * case["pre_release"]))
        pre.free()
        del proxy.calls[:]          # (the HAL hands the released handle out again: the log must start with the new delay)
        proxy.alarms.clear()
        proxy.last_init = None
        acc.ev("same-period-delay-released-just-before")
    t0 = e.now()
    go.release()
    if not done.acquire(timeout=20):
        return ("INCONCLUSIVE", "worker never constructed the delay")
    if "exc" in box:
        acc.violation("C16/raised", f"NotifierDelay({P}/1e6) raised {box['exc']!r}", case, {})
        return None
    handle = proxy.last_init
    if handle is None and bodies:
        # an implementation that allocates / arms its notifier later than at creation: this harness steps the clock to the
        # alarm it SEES programmed, so it cannot drive such a loop - no verdict for this case
        go.release()
        return ("INCONCLUSIVE", "no notifier was armed at creation: the harness cannot drive this implementation")

    def alarms():
        return [c[2] for c in proxy.calls if c[0] == "alarm" and c[1] == handle]
    other = None
    if case.get("other_period") and case["other_period"] != P and handle is not None:
        other = pd.NotifierDelay(case["other_period"] / 1e6)        # nobody waits on it; it only has to leave the first one alone
        acc.ev("second-delay-with-another-period-alive")
    overruns = ontime = 0
    seen = {"i": 0, "n": 0}

    def n_waits():
        # wait() calls on this handle logged so far (scanned incrementally: a delay object may wait 70 000 times)
        calls = proxy.calls
        n = len(calls)
        for j in range(seen["i"], n):
            c = calls[j]
            if c[0] == "wait" and c[1] == handle:
                seen["n"] += 1
        seen["i"] = n
        return seen["n"]

    budget = case.get("wall_budget_s")
    t_wall0 = time.time()
    truncated = None
    for k, body in enumerate(bodies):
        if budget and k % 128 == 0 and time.time() - t_wall0 > budget:
            # a marathon is bounded by wall-clock time as well (a loaded machine needs several ms per hand-over between the
            # two threads): what was judged so far stands, the number of waits judged is recorded
            truncated = k
            break
        e.advance(body)
        body_end = e.now()
        n_wait_before = n_waits()
        # the alarm this wait() will block on was programmed before the worker is released; it is read now, because
        # the worker re-programs the next one as soon as its wait returns
        al = proxy.alarms.get(handle)
        want = t0 + (k + 1) * P
        go.release()
        if al is not None and al <= e.now():
            # overrun: the wait must come back without the clock moving
            if not done.acquire(timeout=20):
                return ("INCONCLUSIVE", f"wait() #{k} did not return although its alarm had passed")
        else:
            deadline = time.time() + 20
            returned = False
            while time.time() < deadline:
                if done.acquire(blocking=False):
                    returned = True
                    break
                if n_waits() > n_wait_before:
                    break
                time.sleep(0.0002)
            else:
                return ("INCONCLUSIVE", f"worker did not reach wait() #{k}")
            if not returned:
                # the proxy logs the call just before the real HAL wait starts; give the worker time to block in it
                # (a wake-up sent while it is between the HAL's time check and its condition wait can be lost)
                time.sleep(0.001)
                if done.acquire(blocking=False):
                    returned = True
            if not returned:
                if al is not None:
                    e.step_to(al)           # exactly to the programmed alarm, never beyond
                if not done.acquire(timeout=3):
                    return ("INCONCLUSIVE", f"wait() #{k} did not return at its alarm (lost wake-up in the simulator?)")
        if "exc" in box:
            acc.violation("C16/raised", f"wait() raised {box['exc']!r}", case, {"k": k})
            return None
        ret = rets[k]
        acc.checks += 2
        expect = max(want, body_end)
        if ret < want:
            acc.violation("C16/early-return", f"P={P} us, t0={t0}: wait() #{k + 1} returned at {ret}, {want - ret} us before t0+{k + 1}*P={want}", case, {"k": k})
            return None
        if ret != expect:
            acc.violation("C16/late-return", f"P={P} us, t0={t0}: wait() #{k + 1} returned at {ret}; the body had finished at {body_end}, "
                                            f"so it must return at {expect}", case, {"k": k})
            return None
        if body_end > want:
            overruns += 1
            acc.ev("wait-after-overrun")
        else:
            ontime += 1
            acc.ev("wait-on-time")
        if k and body_end > want and rets[k - 1] > t0 + k * P:
            acc.ev("catch-up-wait")
    if truncated is not None:
        stage["stop"] = True
        go.release()               # the worker leaves its loop instead of waiting once more
        bodies = bodies[:truncated]
        acc.ev("marathon-stopped-at-its-wall-clock-budget")
    case["_waits_judged"] = len(bodies)
    # ---- the alarm series stays on the grid
    al = alarms()
    acc.checks += len(al)
    for i, a in enumerate(al):
        if a != t0 + (i + 1) * P:
            acc.violation("C16/alarm-off-grid", f"P={P} us, t0={t0}: alarm #{i + 1} programmed at {a}, grid point is {t0 + (i + 1) * P}", case, {})
            return None
        acc.ev("alarm-on-grid")
    if len(al) != len(bodies) + 1:
        acc.violation("C16/alarm-count", f"{len(al)} alarms programmed for {len(bodies)} waits (+1 at creation)", case, {})
        return None
    # ---- release
    n_calls = len(proxy.calls)
    go.release()
    if not done.acquire(timeout=20):
        return ("INCONCLUSIVE", "free() did not return")
    rel = [c[0] for c in proxy.calls[n_calls:] if c[1] == handle]
    acc.checks += 1
    if handle is None and not rel:
        acc.ev("nothing-allocated-nothing-released(observation)")
    elif rel.count("stop") != 1 or rel.count("clean") != 1 or rel.index("stop") > rel.index("clean"):
        acc.violation("C16/not-released", f"after free()/with-exit the notifier calls were {rel}, expected one stop then one clean", case, {})
        return None
    acc.ev("release-observed")
    if not bodies:
        acc.ev("released-before-the-first-wait")
    if P >= 1000000:
        acc.ev("period-of-a-second-or-more")
    if case["use_with"] and case.get("exit_exc"):
        acc.ev("release-on-exception-exit")
    for j in range(case["after_free"]):
        n_calls = len(proxy.calls)
        go.release()
        if not done.acquire(timeout=10):
            acc.violation("C16/freed-wait-blocks", "wait() after free() did not return immediately", case, {})
            return None
        extra = [c[0] for c in proxy.calls[n_calls:]]
        t_before, t_after = box["after"][j]
        acc.checks += 1
        if "wait" in extra or "alarm" in extra or t_before != t_after:
            acc.violation("C16/freed-wait-touches-hal", f"wait() after free() made HAL calls {extra}", case, {})
            return None
        acc.ev("freed-wait-immediate")
    th.join(5)
    if other is not None:
        other.free()
    if "exc" in box:
        acc.violation("C16/raised", f"releasing the delay a second time / using it after release raised {box['exc']!r}", case, {})
        return None
    if case["use_with"] and case.get("free_in_with"):
        acc.ev("freed-inside-the-with-block")
    if overruns and ontime:
        acc.nontrivial.add(stable_hash([P, bodies]))
    return None


def run_convert(acc, spec):
    """Every whole-microsecond period: the first alarm the delay programs is t0 + n."""
    from . import simenv
    import robotpy_ext.misc.precise_delay as pd
    e = simenv.env()
    proxy = e.proxy
    graveyard = []
    import gc
    for n in range(spec["lo"] + spec["offset"], spec["hi"] + 1, spec["stride"]):
        t0 = e.now()
        proxy.last_init = None
        try:
            d = pd.NotifierDelay(n / 1e6)
        except Exception as ex:  # noqa
            acc.violation("C16/raised", f"NotifierDelay({n}/1e6) raised {ex!r}", {"mode": "convert1", "n": n}, {})
            continue
        if proxy.last_init is None:
            # an implementation that arms its notifier later than at creation: this sweep cannot see the period it uses
            # (the threaded workload still judges every wait()); not a verdict
            acc.ev("no-alarm-programmed-at-creation(observation)")
            d.free()
            continue
        if len(graveyard) >= 3:
            # freed-but-still-referenced delays are collected while this newer one is in use: its notifier must survive
            del graveyard[:]          # reference counting runs their finalizers right here
        al = proxy.alarms.get(proxy.last_init)
        d.free()
        graveyard.append(d)
        acc.evaluations += 1
        acc.checks += 1
        acc.ev("conversion-period-checked")
        acc.nontrivial.add(n)
        if al is None:
            acc.violation("C16/alarm-cancelled", f"NotifierDelay({n}/1e6): the alarm it programmed at creation was cancelled before it was freed "
                          "(another object's release stopped/cleaned this notifier's handle)", {"mode": "convert1", "n": n}, {})
        elif al != t0 + n:
            acc.violation("C16/period-conversion", f"NotifierDelay({n}/1e6) created at {t0} programs its first alarm at {al}: "
                          f"period {al - t0} us instead of {n} us, so wait() #k returns {n - (al - t0)}*k us before t0+k*P",
                          {"mode": "convert1", "n": n}, {})
    # periods below 1 ms are refused
    for bad in (0.0009999, 0.0005, 0.0):
        acc.checks += 1
        try:
            pd.NotifierDelay(bad).free()
        except ValueError:
            acc.ev("sub-ms-period-refused")
        else:
            acc.ev("sub-ms-period-accepted(observation)")


def run_shard(spec):
    from . import simenv
    simenv.env()
    rng = random.Random(spec["seed"])
    acc = Acc()
    if spec["mode"] == "convert":
        run_convert(acc, spec)
        if spec["stride"] == 1:
            acc.extra["exhaustive_conversion_range"] = [spec["lo"], spec["hi"]]
        acc.samples.append({"mode": "convert", "range": [spec["lo"], spec["hi"]], "stride": spec["stride"]})
        return acc.result()
    for i in range(spec["n"]):
        case = gen_case(rng)
        if spec.get("marathon"):
            case.update({"P": 20000, "bodies": [0] * spec["marathon"], "use_with": True, "exit_exc": False,
                         "wall_budget_s": float(os.environ.get("VF_MARATHON_BUDGET_S") or (150 if spec.get("tier") == "quick" else 900))})
        if spec.get("start_at"):
            case["start_at"] = spec["start_at"]
            case["P"] = max(case["P"], 20000)
            acc.ev("clock-around-2^32us" if spec["start_at"] < 2 ** 33 else "fpga-time-of-many-hours")
        t_shard0 = time.time()
        r = run_threaded(acc, case)
        for _retry in range(2):
            if r is None or not spec.get("marathon") or acc.violations or time.time() - t_shard0 > case["wall_budget_s"]:
                break
            acc.ev("marathon-restarted-after-lost-wakeup")       # the one long run is worth a second and third attempt
            acc.extra.setdefault("marathon_restarts", []).append(r[1])
            r = run_threaded(acc, case)
        if spec.get("marathon"):
            acc.ev("marathon-of-waits", case.get("_waits_judged", 0))
            acc.extra["marathon_waits_judged"] = case.get("_waits_judged", 0)
        if r is not None and spec.get("marathon"):
            # three attempts lost a wake-up somewhere in 70 000 waits (loaded machine): recorded, no verdict from this run
            acc.ev("marathon-gave-no-verdict")
            acc.extra.setdefault("inconclusive_cases", []).append(r[1])
        elif r is not None:
            acc.ev("case-inconclusive")
            acc.extra.setdefault("inconclusive_cases", []).append(r[1])
        if i < 2:
            acc.samples.append({"P": case["P"], "bodies": case["bodies"][:12], "use_with": case["use_with"]})
    if acc.events.get("case-inconclusive", 0) > spec["n"] // 3 and not acc.violations:
        # the simulator lost too many wake-ups (heavily loaded machine): the shard says so instead of guessing
        raise RuntimeError(f"too many inconclusive threaded runs: {acc.extra.get('inconclusive_cases')[:3]}")
    return acc.result()


def replay(pid, case):
    from . import simenv
    simenv.env()
    acc = Acc()
    if case["mode"] == "convert1":
        # a few constructions before it as well: what an earlier, already freed delay does when it is collected is part
        # of the history of this one
        run_convert(acc, {"lo": max(1000, case["n"] - 9), "hi": case["n"], "stride": 1, "offset": 0})
    else:
        if case.get("wall_budget_s"):
            case = dict(case, wall_budget_s=max(case["wall_budget_s"], 240))       # (a replay runs alone and may take longer)
        run_threaded(acc, case)
    return acc.violations[0] if acc.violations else None
