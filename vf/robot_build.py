"""Builds a real MagicRobot subclass, components and an on-disk `autonomous` package from a JSON spec,
and drives its real startCompetition() loop through a mode history (see simenv)."""
from __future__ import annotations

import importlib
import os
import shutil
import sys
import tempfile
import threading

from collections.abc import Sequence  # noqa: F401  (string return hints of generated getters are resolved in this module)

from . import robot_rt as rt
from . import simenv

try:  # noqa
    from wpimath.geometry import Rotation2d  # noqa: F401
except Exception:  # the runner process imports this module without needing wpimath
    Rotation2d = None

HINTS = ["int", "float", "bool", "str", "int[]", "float[]", "bool[]", "str[]", "rot", "rot[]", None]
TYPE_STR = {"int": "int", "float": "double", "bool": "boolean", "str": "string", "int[]": "int[]", "float[]": "double[]",
            "bool[]": "boolean[]", "str[]": "string[]", "rot": "struct:Rotation2d", "rot[]": "struct:Rotation2d[]"}


def hint_obj(h, variant=0):
    from collections.abc import Sequence
    from wpimath.geometry import Rotation2d
    base = {"int": int, "float": float, "bool": bool, "str": str, "rot": Rotation2d}
    if h is None:
        return None
    if h.endswith("[]"):
        t = base[h[:-2]]
        return [Sequence[t], list[t], tuple[t, ...], tuple[t, t, t], tuple[t, t]][variant % 5]
    return base[h]


def fb_value(h, i, nohint_kind="float"):
    """Value returned by a feedback getter on its i-th call."""
    from wpimath.geometry import Rotation2d
    if h is None:
        h = nohint_kind
    if h == "int":
        return i * 3 + 1
    if h == "float":
        return i - 2 if i % 5 == 3 else i * 0.25 - 1.0        # a `-> float` getter may hand back a Python int now and then
    if h == "bool":
        return i % 2 == 0
    if h == "str":
        return f"s{i}"
    if h == "int[]":
        return [i, i + 1, -i]
    if h == "float[]":
        return (i, 2) if i % 7 == 4 else (i * 0.5, 1.5)
    if h == "bool[]":
        return [i % 2 == 0, True]
    if h == "str[]":
        return [f"a{i}", "b"]
    if h == "rot":
        return Rotation2d(i * 0.125)
    if h == "rot[]":
        return [Rotation2d(i * 0.125), Rotation2d(1.0)]
    raise ValueError(h)


def fb_key(fb):
    """NetworkTables key of a feedback, from the statement: explicit key, else name minus ONE leading 'get_'."""
    if fb.get("key") is not None:
        return fb["key"]
    n = fb["name"]
    return n[4:] if n.startswith("get_") else n


HINT_SRC = {"int": "int", "float": "float", "bool": "bool", "str": "str", "rot": "Rotation2d",
            "int[]": ["Sequence[int]", "list[int]", "tuple[int, ...]", "tuple[int, int, int]", "tuple[int, int]"],
            "float[]": ["Sequence[float]", "list[float]", "tuple[float, ...]", "tuple[float, float, float]", "tuple[float, float]"],
            "bool[]": ["Sequence[bool]", "list[bool]", "tuple[bool, ...]", "tuple[bool, bool, bool]", "tuple[bool, bool]"],
            "str[]": ["Sequence[str]", "list[str]", "tuple[str, ...]", "tuple[str, str, str]", "tuple[str, str]"],
            "rot[]": ["Sequence[Rotation2d]", "list[Rotation2d]", "tuple[Rotation2d, ...]", "tuple[Rotation2d, Rotation2d, Rotation2d]",
                      "tuple[Rotation2d, Rotation2d]"]}


def hint_for(fb):
    """The return annotation of a generated getter: a type object, or - as `from __future__ import annotations` or a
    quoted hint would leave it - the source text of the same type."""
    if fb["hint"] is None:
        return None
    if fb.get("string_hint"):
        src = HINT_SRC[fb["hint"]]
        return src if isinstance(src, str) else src[fb.get("variant", 0) % 5]
    return hint_obj(fb["hint"], fb.get("variant", 0))


def _mk_method(name, site, ret=None, dyn=None, fn_name=None):
    """A method `name(self)` that reports to the recorder; for feedbacks it also returns the scripted value.
    dyn: suffix for classes shared by several components - the site is then derived from the name MagicRobot gave
    the instance (its injected logger), e.g. '<component>.execute'."""
    if dyn is not None:
        if ret is None:
            def m(self):
                rt.cb(f"{self.logger.name}.{dyn}")
        else:
            hint, nohint_kind, same_object = ret

            def m(self):
                st = f"{self.logger.name}.{dyn}"
                c = rt.CUR.counts.get(st, 0)
                v = fb_value(hint, c, nohint_kind)
                rt.cb(st, v)
                return v
        m.__name__ = m.__qualname__ = fn_name or name
        return m
    if ret is None:
        def m(self):
            rt.cb(site)
    else:
        hint, nohint_kind, same_object = ret
        store = []

        def m(self):
            c = rt.CUR.counts.get(site, 0)
            v = fb_value(hint, c, nohint_kind)
            if same_object and isinstance(v, (list, tuple)):
                # a getter that returns one list object, mutated in place (`return self.positions`)
                store[:] = list(v)
                rt.cb(site, list(store))
                return store
            rt.cb(site, v)
            return v
    # (fn_name: the function object's own name differs from the attribute it is bound to - a lambda, or a function that
    #  went through a helper decorator without functools.wraps)
    m.__name__ = m.__qualname__ = fn_name or name
    return m


def build_robot(spec):
    """Returns (robot_class, tracked attribute list)."""
    import magicbot
    from magicbot import feedback, will_reset_to
    comp_classes = {}
    tracked = []
    for cname, c in spec["components"].items():
        for r in c.get("resets", ()):
            tracked.append((cname, r["attr"]))
        for s in c.get("sentinels", ()):
            tracked.append((cname, s["attr"]))
        for a in c.get("inject", ()):
            tracked.append((cname, a))          # injected variables: the component may re-bind them, the reset must not undo that
        if c.get("same_class_as"):
            continue
        shared = any(o.get("same_class_as") == cname for o in spec["components"].values())
        dyn = (lambda suffix: suffix) if shared else (lambda suffix: None)
        body = {}

        def ctor(self, _site=f"{cname}.ctor", _c=c, _cname=cname):
            for s in _c.get("sentinels", ()):
                setattr(self, s["attr"], s["value"])
            for r_ in _c.get("resets", ()):
                if "ctor_value" in r_:
                    # the constructor leaves something else in a will_reset_to attribute; the declared default counts
                    setattr(self, r_["attr"], r_["ctor_value"])
            if _c.get("hook_kind") == "partial":
                # hooks that are plain callables stored on the instance
                import functools
                for hook_ in ("on_enable", "on_disable"):
                    if _c.get("has_" + hook_):
                        setattr(self, hook_, functools.partial(rt.cb, f"{_cname}.{hook_}"))
            rt.cb(_site)
        body["__init__"] = ctor
        if c.get("truth") == "len0":
            body["__len__"] = lambda self: 0            # a queue-like component that is empty (falsy)
        elif c.get("truth") == "boolFalse":
            body["__bool__"] = lambda self: False
        if c.get("eq_all"):
            # value semantics: all instances of the class compare (and hash) equal
            body["__eq__"] = lambda self, o: type(o) is type(self)
            body["__hash__"] = lambda self: 7
        body["execute"] = _mk_method("execute", f"{cname}.execute", dyn=dyn("execute"))
        for hook in ("on_enable", "on_disable"):
            if c.get("has_" + hook):
                if c.get("hook_kind") == "static" and not shared:
                    body[hook] = staticmethod(lambda _site=f"{cname}.{hook}": rt.cb(_site))
                elif c.get("hook_kind") == "partial" and not shared:
                    pass        # stored on the instance by the constructor
                else:
                    body[hook] = _mk_method(hook, f"{cname}.{hook}", dyn=dyn(hook))
        if c.get("has_setup"):
            def setup(self, _site=f"{cname}.setup", _c=c, _spec=spec, _shared=shared):
                r = rt.CUR.robot
                present = [hasattr(r, n) for n in _spec["components"]]
                inj = [getattr(self, a, None) is getattr(r, a, rt.ABSENT) for a in _c.get("inject", ())]
                # "after all injection is done": every component, not only this one, already has its injected attributes
                everyone = [getattr(getattr(r, n, None), a, None) is getattr(r, a, rt.ABSENT)
                            for n, cc in _spec["components"].items() for a in cc.get("inject", ())]
                # will_reset_to attributes "start at their declared default": that is what setup() already reads
                wrong = []
                for rr in _c.get("resets", ()):
                    dflt = rt.resolve(rr["default"])
                    val = getattr(self, rr["attr"], rt.ABSENT)
                    if not (val is dflt or (type(val) is type(dflt) and val == dflt)):
                        wrong.append((rr["attr"], repr(val)[:60], repr(dflt)[:60]))
                rt.cb(f"{self.logger.name}.setup" if _shared else _site,
                      {"all_components_exist": all(present), "injected_identity": inj, "all_injected": all(everyone),
                       "resets_not_at_default": wrong, "n_resets": len(_c.get("resets", ()))})
            body["setup"] = setup
        base_body = {}
        markers = {}
        for r in c.get("resets", ()):
            # `left = right = will_reset_to(0.0)`: ONE marker object bound under two names
            mk = markers[r["alias_of"]] if r.get("alias_of") in markers else will_reset_to(rt.resolve(r["default"]))
            markers[r["attr"]] = mk
            (base_body if r.get("inherited") else body)[r["attr"]] = mk
            if "base_default" in r and not r.get("inherited"):
                # the subclass re-declares a marker it inherits, with another default: the subclass's one counts
                base_body[r["attr"]] = will_reset_to(rt.resolve(r["base_default"]))
        for s in c.get("sentinels", ()):
            if "shadowed_marker_default" in s:
                # an inherited marker shadowed by a plain attribute of the subclass: no longer a reset attribute
                base_body[s["attr"]] = will_reset_to(s["shadowed_marker_default"])
                body[s["attr"]] = s["value"]
        for fb in c.get("feedbacks", ()):
            f = _mk_method(fb["name"], f"{cname}.fb.{fb['name']}", (fb["hint"], fb.get("nohint_kind", "float"), fb.get("same_object", False)),
                           dyn=dyn(f"fb.{fb['name']}"), fn_name=fb.get("fn_name"))
            h = hint_for(fb)
            if h is not None:
                f.__annotations__ = {"return": h}
            body[fb["name"]] = (feedback()(f) if fb.get("parens") else feedback(f)) if fb.get("key") is None else feedback(key=fb["key"])(f)
        bases = (type("B_" + cname, (), base_body),) if base_body else ()
        if c.get("magic_component"):
            # the optional documented base class, reached through an intermediate class of the team's own
            from magicbot.magiccomponent import MagicComponent
            Mid = type("Mid_" + cname, bases + (MagicComponent,), {})
            bases = (Mid,)
        if c.get("is_sm"):
            # a magicbot.StateMachine used as a component: the framework's own execute/on_enable/on_disable run after ours
            from magicbot.state_machine import StateMachine, state as sm_state

            def _s0(self):
                pass
            _s0.__name__ = "idle_state"
            body["idle_state"] = sm_state(first=True)(_s0)
            for hook in ("execute", "on_enable", "on_disable"):
                def h(self, _hook=hook, _site=f"{cname}.{hook}", _shared=shared):
                    rt.cb(f"{self.logger.name}.{_hook}" if _shared else _site)
                    getattr(StateMachine, _hook)(self)
                h.__name__ = hook
                body[hook] = h
            bases = bases + (StateMachine,)
        comp_classes[cname] = type("C_" + cname, bases, body)
    for cname, c in spec["components"].items():
        if c.get("same_class_as"):
            base = comp_classes[c["same_class_as"]]
            extra = {}
            for r in c.get("extra_resets", ()):
                extra[r["attr"]] = will_reset_to(rt.resolve(r["default"]))
            for fb in c.get("extra_feedbacks", ()):
                f = _mk_method(fb["name"], None, (fb["hint"], fb.get("nohint_kind", "float"), False), dyn=f"fb.{fb['name']}",
                               fn_name=fb.get("fn_name"))
                h = hint_for(fb)
                if h is not None:
                    f.__annotations__ = {"return": h}
                extra[fb["name"]] = feedback(f) if fb.get("key") is None else feedback(key=fb["key"])(f)
            # a component whose class DERIVES from another component's class and adds markers / getters of its own
            comp_classes[cname] = type("C_" + cname + "_derived", (base,), extra) if extra else base
    for cname, c in spec["components"].items():
        ann = {a: comp_classes[a] for a in c.get("inject", ())}
        if ann and not c.get("same_class_as"):
            comp_classes[cname].__annotations__ = ann
        if c.get("ctor_inject") and not c.get("same_class_as"):
            # constructor injection of earlier-declared components: `def __init__(self, drivetrain: Drivetrain)`
            cls_ = comp_classes[cname]
            ns_ = {"_real": cls_.__init__, "_rt": rt}
            params_ = ", ".join(c["ctor_inject"])
            ids_ = ", ".join(f"({n!r}, {n})" for n in c["ctor_inject"])
            exec(f"def __init__(self, {params_}):\n    self._vf_ctor_args = [{ids_}]\n    _real(self)\n", ns_)
            ns_["__init__"].__annotations__ = {n: comp_classes[n] for n in c["ctor_inject"]}
            cls_.__init__ = ns_["__init__"]
    # ---- robot class chain
    MagicRobot = magicbot.MagicRobot
    prev = MagicRobot
    hooks = ["disabledInit", "disabledPeriodic", "teleopInit", "teleopPeriodic", "autonomousInit", "testInit", "testPeriodic"]
    for level, rc in enumerate(spec["robot_classes"]):
        body = {"__annotations__": {n: comp_classes[n] for n in rc["components"]}}
        if level == 0:
            body["createObjects"] = lambda self: None
            for h in hooks:
                if h in spec.get("omit_hooks", ()):
                    continue
                if h in spec.get("consume_hooks", ()):
                    # the documented `with self.consumeExceptions():` block inside a periodic method, and code after it
                    def hm(self, _site=f"R.{h}"):
                        with self.consumeExceptions():
                            rt.cb(_site)
                        rt.cb(_site + ".after")
                    hm.__name__ = hm.__qualname__ = h
                    body[h] = hm
                else:
                    body[h] = _mk_method(h, f"R.{h}")
            if spec.get("super_robot_periodic"):
                def robotPeriodic(self):
                    rt.cb("R.robotPeriodic")
                    MagicRobot.robotPeriodic(self)
            else:
                robotPeriodic = _mk_method("robotPeriodic", "R.robotPeriodic")
            body["robotPeriodic"] = robotPeriodic
            body["control_loop_wait_time"] = spec["period_us"] / 1e6
            body["use_teleop_in_autonomous"] = spec["teleop_in_auto"]
            for fb in spec.get("robot_feedbacks", ()):
                f = _mk_method(fb["name"], f"R.fb.{fb['name']}", (fb["hint"], fb.get("nohint_kind", "float"), fb.get("same_object", False)),
                               fn_name=fb.get("fn_name"))
                h = hint_for(fb)
                if h is not None:
                    f.__annotations__ = {"return": h}
                body[fb["name"]] = (feedback()(f) if fb.get("parens") else feedback(f)) if fb.get("key") is None else feedback(key=fb["key"])(f)
            if spec.get("period_on_instance"):
                # control_loop_wait_time set on the instance (in createObjects) instead of on the class
                del body["control_loop_wait_time"]
                body["createObjects"] = lambda self, _p=spec["period_us"] / 1e6: setattr(self, "control_loop_wait_time", _p)
            if spec.get("teleop_in_auto") and spec.get("teleop_in_auto_as_int"):
                body["use_teleop_in_autonomous"] = 1
        prev = type(rc["name"], (prev,), body)
    return prev, tracked


def write_auto_package(spec, root):
    """Writes the `autonomous` package for this case; returns its directory (or None)."""
    modes = spec.get("modes")
    if modes is None:
        return None
    pkg = os.path.join(root, "autonomous")
    os.makedirs(pkg)
    open(os.path.join(pkg, "__init__.py"), "w").close()
    for i, m in enumerate(modes):
        with open(os.path.join(pkg, f"mod{i}.py"), "w") as f:
            f.write("import vf.robot_rt as rt\n\n\n")
            f.write(f"class Mode{i}:\n")
            f.write(f"    MODE_NAME = {m['name']!r}\n")
            if m.get("default"):
                f.write("    DEFAULT = True\n")
            if m.get("falsy") == "len":
                f.write("    def __len__(self):\n        return 0\n")
            if m.get("falsy") == "bool":
                f.write("    def __bool__(self):\n        return False\n")
            f.write(f"    def on_enable(self):\n        rt.cb('M.{m['name']}.on_enable')\n")
            f.write(f"    def on_iteration(self, tm):\n        rt.cb('M.{m['name']}.on_iteration', tm)\n")
            f.write(f"    def on_disable(self):\n        rt.cb('M.{m['name']}.on_disable')\n")
    return pkg


def purge_autonomous():
    for k in [k for k in sys.modules if k == "autonomous" or k.startswith("autonomous.")]:
        del sys.modules[k]
    importlib.invalidate_caches()


MODE_WORDS = {"disabled": (False, False, False), "auto": (True, True, False), "teleop": (True, False, False), "test": (True, False, True)}


class Run:
    """One robot driven through one history.  Result fields: log, arrivals (list of dict per quiescent point),
    escaped (exception or None), ended (bool), timeout (bool)."""

    def __init__(self, spec, nt_reader=None):
        self.spec = spec
        self.nt_reader = nt_reader
        self.escaped = None
        self.timeout = False
        self.arrivals = []
        self.delays = []

    def execute(self):
        import ntcore
        spec = self.spec
        e = simenv.env()
        e.reset_between_cases()
        if spec.get("uptime_us"):
            e.advance(spec["uptime_us"])
        inst = ntcore.NetworkTableInstance.getDefault()
        mode_sub = inst.getStringTopic("/robot/mode").subscribe("<unset>")
        root = tempfile.mkdtemp(prefix="vf-auto-")
        purge_autonomous()
        sys.path.insert(0, root)
        try:
            write_auto_package(spec, root)
            robot_cls, tracked = build_robot(spec)
            rec = rt.Recorder(spec.get("plan", {}), tracked, e.now, e.advance, mode_sub)
            rt.CUR = rec
            self.rec = rec
            gate = simenv.Gate()
            e.gate = gate
            e.on_delay_created = lambda d, p: self.delays.append((e.now(), p, d._vf_handle))
            e.proxy.record = True
            history = spec["history"]
            # initial driver-station state
            seg = 0
            mode, dwell = history[0]
            en, au, te = MODE_WORDS[mode]
            flags = spec.get("disabled_flags", {}).get("0", (False, False)) if mode == "disabled" else (au, te)
            simenv.set_ds(en, flags[0], flags[1], fms=spec["fms"])
            import wpilib
            if spec.get("match_type"):
                # match information sent by the driver station (practice matches at home have it without any field)
                from wpilib.simulation import DriverStationSim as _DSS
                _DSS.setMatchType(getattr(wpilib.DriverStation.MatchType, "k" + spec["match_type"].capitalize()))
                _DSS.setEventName("vf-event")
                _DSS.setMatchNumber(7)
                _DSS.notifyNewData()
            # the dashboard's 'Auto Selector' string (always written: "" names no mode)
            wpilib.SmartDashboard.putString("Auto Selector", spec.get("auto_selector") or "")
            robot = robot_cls()
            rec.robot = robot
            self.robot = robot

            def target():
                try:
                    robot.startCompetition()
                except BaseException as ex:  # noqa
                    self.escaped = ex
                finally:
                    gate.thread_ended()
            th = threading.Thread(target=target, name="vf-robot", daemon=True)
            e.robot_thread = th
            th.start()
            left = dwell
            ended_called = False
            cur_fms = [spec["fms"]]
            switched_early = [False]

            def arm_early(seg_, left_):
                """The driver station changes to the next mode in the MIDDLE of this segment's last iteration (inside a
                callback) instead of while the robot waits for the next one."""
                site = spec.get("early_switch", {}).get(str(seg_))
                if site is None or left_ != 1 or seg_ + 1 >= len(history):
                    return
                nmode = history[seg_ + 1][0]

                def do_switch(_n=nmode, _s=seg_ + 1):
                    en_, au_, te_ = MODE_WORDS[_n]
                    if _n == "disabled":
                        au_, te_ = spec.get("disabled_flags", {}).get(str(_s), (False, False))
                    simenv.set_ds(en_, au_, te_, fms=cur_fms[0])
                    switched_early[0] = True
                rec.early = {"site": site, "fn": do_switch}
            arm_early(0, left)
            while True:
                st = gate.wait_parked(30.0)
                if st == "timeout":
                    self.timeout = True
                    break
                if st == "ended":
                    break
                # ---- quiescent point: the robot thread is parked inside wait()
                now = e.now()
                rec.log.append(["arrival", now, mode, rec.snapshot()])
                arr = {"t": now, "mode": mode, "log_len": len(rec.log)}
                if self.nt_reader is not None:
                    arr["nt"] = self.nt_reader()
                self.arrivals.append(arr)
                fch = spec.get("fms_changes", {}).get(str(len(self.arrivals) - 1))
                if fch is not None:
                    from wpilib.simulation import DriverStationSim as _DS
                    cur_fms[0] = fch
                    _DS.setFmsAttached(fch)
                    _DS.notifyNewData()
                    rec.log.append(["fms", fch])
                left -= 1
                if left <= 0:
                    seg += 1
                    if seg >= len(history):
                        robot.endCompetition()
                        ended_called = True
                        rec.log.append(["endCompetition", now, mode])
                    else:
                        mode, left = history[seg]
                        en, au, te = MODE_WORDS[mode]
                        if mode == "disabled":
                            au, te = spec.get("disabled_flags", {}).get(str(seg), (False, False))
                        rec.early = None
                        if not switched_early[0]:
                            simenv.set_ds(en, au, te, fms=cur_fms[0])
                        switched_early[0] = False
                arm_early(seg, left)
                alarm = e.alarm_of(gate.current_delay)
                if alarm is not None:
                    e.step_to(alarm)
                gate.release()
                if ended_called:
                    if not gate.wait_ended(30.0):
                        self.timeout = True
                    break
            self.ended = gate.ended
            self.alive = th.is_alive()
            if not self.timeout:
                th.join(5.0)
            self.log = rec.log
            self.hal_calls = list(e.proxy.calls)
        finally:
            e.gate = None
            e.on_delay_created = None
            e.proxy.record = False
            rt.CUR = rt.CUR  # recorder stays referenced for late destructors
            mode_sub.close()
            try:
                sys.path.remove(root)
            except ValueError:
                pass
            purge_autonomous()
            shutil.rmtree(root, ignore_errors=True)
        return self
