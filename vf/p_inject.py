"""C08 - variable injection: generated robot definitions through the real robotInit(), resolution oracle."""
from __future__ import annotations

import os
import random
import shutil
import sys
import tempfile

from .common import Acc, stable_hash

PROPERTIES = {"C08": "injection"}
RULE = {"C08": "generated robot definitions: 1-4 components (own and inherited annotations, constructor parameters, "
               "cross-component references in both declaration directions), 0-2 autonomous modes as injection targets, robot "
               "attributes at class level / in an inherited robot class / in createObjects; each annotated attribute draws its "
               "relation to the robot from {absent, plain, prefixed only, both, wrong type, subclass instance, bool for int, "
               "falsy value, None, preset on the class, set in __init__, private, generic alias, other component}; robotInit() "
               "runs for real.  Also: components that are StateMachines, two components of one class, falsy component / mode objects, robot attributes that are callable objects (instance with __call__, functools.partial, class object), FMS attached at start-up.  Non-trivial = >=2 components and >=1 of {prefixed, falsy, cross-component, error}; distinct = "
               "hash of the definition."}
REQUIRED = {"C08": {"robot-setting-requested-by-a-component": 50, "annotated-tunable-left-alone": 50, "class-level-default-replaced-in-createObjects": 200, "private-annotation-on-robot-class": 100, "rel:reannotated-in-subclass": 30, "constructor-annotations-are-strings": 50, "structural-or-mock-instance": 50, "falsy-component-or-mode": 100, "callable-robot-attribute": 50, "rel:plain": 200, "rel:prefixed": 100, "rel:both": 50, "rel:falsy": 100, "rel:subclass": 50, "rel:bool-for-int": 30,
                    "rel:generic-alias": 30, "rel:preset-class": 50, "rel:preset-init": 50, "rel:private": 50, "rel:component-earlier": 50,
                    "rel:component-later": 50, "rel:absent": 50, "rel:wrong-type": 50, "rel:wrong-type-prefixed": 20, "rel:none": 20, "rel:ctor-param": 50,
                    "rel:inherited-annotation": 50, "rel:mode-target": 50, "rel:one-class-two-components": 50, "rel:one-statemachine-class-two-components": 20, "fms-attached-at-startup": 100,
                    "rel:wrong-type-plain-good-prefixed": 10, "startup-failed-as-expected": 100,
                    "identity-checked-in-setup": 300, "identity-checked-after-init": 300, "untouched-checked": 100}}
ASSUMPTIONS = {"C08": ["a robot attribute whose value is None is generated only where both readings of 'if there is none' give the same outcome",
                       "when several erroneous attributes are present, any of their error types may surface first"]}

TYPES = {}
STATE = {"log": None}


def _types():
    if not TYPES:
        T0 = type("T0", (), {})
        T1 = type("T1", (T0,), {})
        T2 = type("T2", (), {})

        def _no_text(self):
            # a hardware wrapper that cannot describe itself (only while the library's start-up code runs: the harness's own
            # messages may print it)
            if STATE.get("strict_repr"):
                raise RuntimeError("vf: this object cannot be printed")
            return f"<T3 at {id(self):#x}>"
        T3 = type("T3", (T2,), {"__repr__": _no_text, "__str__": _no_text})
        TYPES["T3"] = T3
        import functools
        CallT = type("CallT", (), {"__call__": lambda self: 1})       # an object that happens to be callable
        TYPES.update({"CallT": CallT, "partial": functools.partial, "type": type})
        import typing
        # structural typing: HasSpin does not inherit from Proto, isinstance() says yes all the same
        Proto = typing.runtime_checkable(type("Proto", (typing.Protocol,), {"spin": lambda self: None}))
        HasSpin = type("HasSpin", (), {"spin": lambda self: None})
        TYPES.update({"Proto": Proto, "HasSpin": HasSpin})
        TYPES.update({"List": typing.List, "Dict": typing.Dict, "Tuple": typing.Tuple})       # unsubscripted typing aliases
        TYPES.update({"T0": T0, "T1": T1, "T2": T2, "int": int, "str": str, "float": float, "list": list, "tuple": tuple,
                      "bool": bool, "list[int]": list[int], "tuple[int, int]": tuple[int, int], "dict[str, int]": dict[str, int]})
    return TYPES


def shards(pid, tier, seed):
    if tier == "quick":
        return [{"n": 150} for _ in range(12)]
    return [{"n": 2500} for _ in range(64)]


# value descriptors -> fresh python objects (a fresh object per robot attribute so that identity is meaningful)
def make_value(desc):
    T = _types()
    k = desc[0]
    if k == "inst":
        return T[desc[1]]()
    if k == "lit":
        return desc[1]
    if k == "list":
        return list(desc[1])
    if k == "tuple":
        return tuple(desc[1])
    if k == "dict":
        return dict(desc[1])
    if k == "partial":
        import functools
        return functools.partial(int, desc[1])
    if k == "cls":
        return T[desc[1]]        # the class object itself is the value
    if k == "tunable":
        import magicbot
        return magicbot.tunable(desc[1])     # `speed: float = tunable(0.5)`: a value of its own, never a request to the robot
    if k == "mock":
        from unittest import mock
        return mock.Mock(spec=T[desc[1]])       # a test double: isinstance(mock, T) is True, type(mock) is not T
    raise ValueError(desc)


GOOD = {  # annotation -> value descriptors that satisfy it
    "T0": [("inst", "T0"), ("inst", "T1"), ("mock", "T0")], "T1": [("inst", "T1")], "T2": [("inst", "T2"), ("mock", "T2"), ("inst", "T3")],
    "Proto": [("inst", "HasSpin")],
    "List": [("list", [1]), ("list", [])], "Dict": [("dict", {"a": 1})], "Tuple": [("tuple", [1, 2])],
    "int": [("lit", 5), ("lit", 0), ("lit", True), ("lit", -3)], "str": [("lit", "x"), ("lit", "")],
    "float": [("lit", 1.5), ("lit", 0.0)], "list": [("list", [1]), ("list", [])], "tuple": [("tuple", [1, 2]), ("tuple", [])],
    "bool": [("lit", True), ("lit", False)], "list[int]": [("list", [1, 2]), ("list", [])], "tuple[int, int]": [("tuple", [1, 2])],
    "dict[str, int]": [("dict", {"a": 1}), ("dict", {})],
    "CallT": [("inst", "CallT")], "partial": [("partial", "7")], "type": [("cls", "T0"), ("cls", "T2")],
}
BAD = {"T0": [("inst", "T2"), ("lit", 3)], "T1": [("inst", "T0"), ("lit", "s")], "T2": [("inst", "T0")], "int": [("lit", "5"), ("lit", 1.0)],
       "str": [("lit", 5)], "float": [("lit", 1), ("lit", "1.0")], "list": [("tuple", [1])], "tuple": [("list", [1])], "bool": [("lit", 1)],
       "list[int]": [("tuple", [1])], "tuple[int, int]": [("list", [1, 2])], "dict[str, int]": [("list", [])],
       "CallT": [("inst", "T0")], "partial": [("lit", 3)], "type": [("inst", "T0")], "Proto": [("inst", "T0"), ("lit", 3)],
       "List": [("tuple", [1])], "Dict": [("list", [])], "Tuple": [("list", [1])]}
FALSY = {"int": ("lit", 0), "str": ("lit", ""), "float": ("lit", 0.0), "list": ("list", []), "tuple": ("tuple", []), "bool": ("lit", False),
         "list[int]": ("list", []), "dict[str, int]": ("dict", {})}


def gen_case(rng, uid):
    ncomp = rng.choice([1, 2, 2, 3, 4])
    cnames = [f"k{i}{uid}" for i in range(ncomp)]
    robot_attrs = {}      # name -> {"where": class0|class1|create, "value": desc}
    comps = {}
    attr_no = [0]
    allow_error = rng.random() < 0.3

    odd_names = ["log", "ger", "og", "l", "logg", "robot", "comp", "name", "cls", "self_", "mode", "auto", "exec"]
    rng.shuffle(odd_names)

    def fresh():
        attr_no[0] += 1
        if odd_names and rng.random() < 0.15:
            return odd_names.pop()        # ordinary short names (some are fragments of 'logger', 'components', ...)
        return f"a{attr_no[0]}"

    def place(name, desc):
        robot_attrs[name] = {"where": rng.choice(["class0", "class1", "create", "create", "class0+create", "class1+create"]), "value": desc}
        if "+" in robot_attrs[name]["where"]:
            # a class-level default (`shooter_motor = None`, a placeholder object) that createObjects() replaces: the object
            # stored on the robot is the one createObjects() put there
            robot_attrs[name]["stale"] = rng.choice([("lit", None), ("inst", "T2"), ("lit", 0), ("lit", "placeholder")])

    def gen_attr(owner, is_ctor=False, others=()):
        """returns attribute spec dict"""
        name = fresh()
        ann = rng.choice(list(GOOD))
        rels = ["plain", "plain", "prefixed", "both", "falsy", "subclass", "bool-for-int", "generic-alias", "robot-option"]
        if not is_ctor:
            rels += ["preset-class", "preset-init", "private", "preset-tunable"]
        if others:
            rels += ["component", "component"]
        if allow_error:
            rels += ["absent", "wrong-type", "none", "wrong-type-prefixed", "wrong-type-plain-good-prefixed"]
        rel = rng.choice(rels)
        a = {"name": name, "ann": ann, "rel": rel}
        if rel == "plain":
            place(name, rng.choice(GOOD[ann]))
        elif rel == "prefixed":
            place(f"{owner}_{name}", rng.choice(GOOD[ann]))
        elif rel == "both":
            place(name, rng.choice(GOOD[ann]))
            place(f"{owner}_{name}", rng.choice(GOOD[ann]))
        elif rel == "falsy":
            a["ann"] = ann = rng.choice(list(FALSY))
            place(name, FALSY[ann])
            if rng.random() < 0.5:
                place(f"{owner}_{name}", rng.choice(GOOD[ann]))     # must NOT be preferred over the falsy plain one
        elif rel == "subclass":
            a["ann"] = "T0"
            place(name, ("inst", "T1"))
        elif rel == "bool-for-int":
            a["ann"] = "int"
            place(name, ("lit", rng.choice([True, False])))
        elif rel == "generic-alias":
            a["ann"] = ann = rng.choice(["list[int]", "tuple[int, int]", "dict[str, int]"])
            place(name, rng.choice(GOOD[ann]))
        elif rel == "preset-class":
            a["preset"] = rng.choice([("lit", 0), ("lit", None), ("lit", "keep"), ("inst", "T2")])
            if rng.random() < 0.5:
                place(name, rng.choice(GOOD[ann]))
        elif rel == "robot-option":
            # a component asks for one of MagicRobot's own documented settings under its name
            a["name"], a["ann"] = rng.choice([("control_loop_wait_time", "float"), ("error_report_interval", "float"),
                                               ("use_teleop_in_autonomous", "bool")])
            a["rel"] = "plain"
            a["robot_option"] = True
            if rng.random() < 0.5:
                place(a["name"], ("lit", {"float": rng.choice([0.01, 0.05]), "bool": True}[a["ann"]]))
        elif rel == "preset-tunable":
            a["rel"] = "preset-class"
            a["ann"] = "float"
            a["preset"] = ("tunable", rng.choice([0.5, 0.0, 2.25]))
            a["is_tunable"] = True
        elif rel == "preset-init":
            a["preset"] = rng.choice([("lit", 0), ("lit", "keep"), ("inst", "T2"), ("lit", False)])
            if rng.random() < 0.5:
                place(name, rng.choice(GOOD[ann]))
        elif rel == "private":
            a["name"] = "_" + name
            if rng.random() < 0.5:
                place(a["name"], rng.choice(GOOD[ann]))
        elif rel == "component":
            tgt = rng.choice(list(others))
            a["name"] = tgt
            a["ann"] = "comp:" + tgt
        elif rel == "absent":
            pass
        elif rel == "wrong-type":
            place(name, rng.choice(BAD[ann]))
        elif rel == "wrong-type-prefixed":
            place(f"{owner}_{name}", rng.choice(BAD[ann]))
        elif rel == "wrong-type-plain-good-prefixed":
            place(name, rng.choice(BAD[ann]))                      # "the very object stored under the same name" is there, mistyped
            place(f"{owner}_{name}", rng.choice(GOOD[ann]))     # the prefixed one is only looked at "if there is none"
        elif rel == "none":
            place(name, ("lit", None))
        return a

    for i, cn in enumerate(cnames):
        others = [c for c in cnames if c != cn]
        c = {"attrs": [], "base_attrs": [], "ctor": []}
        for _ in range(rng.choice([0, 1, 2, 3])):
            c["attrs"].append(gen_attr(cn, others=others))
        for _ in range(rng.choice([0, 0, 1])):
            c["base_attrs"].append(gen_attr(cn, others=others))
        if rng.random() < 0.3:
            for _ in range(rng.choice([1, 2])):
                c["ctor"].append(gen_attr(cn, is_ctor=True, others=cnames[:i]))    # only earlier-declared components
        if rng.random() < 0.15:
            c["truth"] = rng.choice(["len0", "boolFalse"])       # a component object that is falsy (an empty queue)
        c["ctor_str"] = rng.random() < 0.4
        comps[cn] = c
    # a subclass re-annotates an attribute its base class annotates with another type: the subclass's annotation counts
    for cn, c in comps.items():
        if c["attrs"] and rng.random() < 0.15:
            a = rng.choice(c["attrs"])
            if a["rel"] in ("plain", "prefixed", "both", "subclass", "generic-alias") and not a["name"].startswith("_"):
                other = rng.choice([t for t in ("T2", "str", "int", "T1") if t != a["ann"]])
                c["base_attrs"] = [b for b in c["base_attrs"] if b["name"] != a["name"]]
                c["base_attrs"].append({"name": a["name"], "ann": other, "rel": "shadowed-by-subclass-annotation"})
    # a component never requests the same name twice
    for c in comps.values():
        seen = set()
        for lst in (c["ctor"], c["base_attrs"], c["attrs"]):
            for a in list(lst):
                if a["rel"] == "shadowed-by-subclass-annotation":
                    continue
                if a["name"] in seen:
                    lst.remove(a)
                seen.add(a["name"])
        # a base-class annotation is only "shadowed" while the subclass's own annotation of that name survived the de-duplication
        own = {a["name"] for a in c["attrs"]}
        c["base_attrs"] = [b for b in c["base_attrs"] if b["rel"] != "shadowed-by-subclass-annotation" or b["name"] in own]
    # ... except that a constructor parameter may be asked for once more as an attribute (the constructor only reads it)
    for c in comps.values():
        cands = [a for a in c["ctor"] if a["rel"] in ("plain", "both", "subclass", "prefixed") and not a["name"].startswith("_")
                 and all(b["name"] != a["name"] for b in c["attrs"] + c["base_attrs"])]
        if cands and rng.random() < 0.25:
            dup = dict(rng.choice(cands))
            dup["also_ctor"] = True
            c["attrs"].append(dup)
    twin = None
    if ncomp >= 2 and rng.random() < 0.25:
        # two components that are instances of ONE class; its constructor takes a flag (delivered under the component
        # prefix) and sets an annotated attribute only when the flag is true - so one instance has a value already and
        # the other one must be injected
        a_, b_ = cnames[0], cnames[1]
        tname = fresh()
        ann = rng.choice(["T0", "T2", "int", "str"])
        place(tname, rng.choice(GOOD[ann]))
        flags = [True, False]
        rng.shuffle(flags)
        place(f"{a_}_flag", ("lit", flags[0]))
        place(f"{b_}_flag", ("lit", flags[1]))
        twin = {"a": a_, "b": b_, "attr": tname, "ann": ann, "flags": {a_: flags[0], b_: flags[1]}, "preset": ["lit", "mine"],
                "state_machine": rng.random() < 0.5}
        comps[b_] = {"attrs": [], "base_attrs": [], "ctor": [], "same_class_as": a_}
        comps[a_] = {"attrs": [], "base_attrs": [], "ctor": []}
    modes = []
    for j in range(rng.choice([0, 0, 1, 2])):
        mn = f"md{j}{uid}"
        modes.append({"name": mn, "attrs": [gen_attr(mn, others=cnames) for _ in range(rng.choice([1, 2]))],
                      "truth": rng.choice([None, None, None, None, "len0", "boolFalse"])})
    order = list(cnames)
    rng.shuffle(order)
    # constructor parameters referring to components need those to be declared earlier: enforce on the final order
    for cn in cnames:
        for a in comps[cn]["ctor"]:
            if a["rel"] == "component" and order.index(a["name"]) > order.index(cn):
                a["rel"] = "component-later-ctor"
    split = rng.randrange(0, len(order) + 1)
    return {"uid": uid, "order": order, "split": split, "components": comps, "robot_attrs": robot_attrs, "modes": modes, "twin": twin, "fms": rng.random() < 0.3}


# ----------------------------------------------------------------------------- oracle (from the statement)
ABSENT = object()


def origin_type(ann, comp_classes):
    T = _types()
    if ann.startswith("comp:"):
        return comp_classes[ann[5:]]
    t = T[ann]
    return getattr(t, "__origin__", t)


# ----------------------------------------------------------------------------- real run
def write_modes(case, root):
    if not case["modes"]:
        return
    pkg = os.path.join(root, "autonomous")
    os.makedirs(pkg)
    open(os.path.join(pkg, "__init__.py"), "w").close()
    for j, m in enumerate(case["modes"]):
        with open(os.path.join(pkg, f"m{j}.py"), "w") as f:
            f.write("from vf import p_inject as pi\n\n\n")
            f.write(f"class Mode{j}:\n    MODE_NAME = {m['name']!r}\n")
            for a in m["attrs"]:
                if "preset" in a and a["rel"] == "preset-class":
                    f.write(f"    {a['name']}: pi.ann_of({a['ann']!r}) = pi.make_value({tuple(a['preset'])!r})\n")
                    if a.get("is_tunable"):
                        f.write(f"    pi.STATE.setdefault('mode_tunables', []).append(({m['name']!r}, {a['name']!r}, {a['preset'][1]!r}))\n")
                else:
                    f.write(f"    {a['name']}: pi.ann_of({a['ann']!r})\n")
            f.write("    def __init__(self):\n")
            for a in m["attrs"]:
                if a["rel"] == "preset-init":
                    f.write(f"        self.{a['name']} = pi.make_value({tuple(a['preset'])!r})\n")
            f.write("        pi.STATE['modes'][self.MODE_NAME] = self\n")
            f.write("    def setup(self):\n        pi.on_setup(self, self.MODE_NAME)\n")
            if m.get("truth") == "len0":
                f.write("    def __len__(self):\n        return 0\n")
            elif m.get("truth") == "boolFalse":
                f.write("    def __bool__(self):\n        return False\n")
            f.write("    def on_enable(self):\n        pass\n    def on_iteration(self, tm):\n        pass\n    def on_disable(self):\n        pass\n")


_COMP_CLASSES = {}


def ann_of(ann):
    if ann.startswith("comp:"):
        return _COMP_CLASSES[ann[5:]]
    return _types()[ann]


def on_setup(obj, name):
    """Called from every setup(): snapshot of the instance dicts of ALL components and modes at that moment."""
    robot = STATE.get("robot")
    snap = {}
    for cn in STATE.get("order", ()):
        c = getattr(robot, cn, None)
        snap[cn] = None if c is None else dict(vars(c))
    for mn, m in STATE.get("modes", {}).items():
        snap[mn] = dict(vars(m))
    STATE["log"].append(("setup", name, snap))


def run_case(acc, case):
    import magicbot
    from magicbot.inject import MagicInjectError
    from .robot_build import purge_autonomous
    import hal.simulation as hs
    from wpilib.simulation import DriverStationSim
    T = _types()
    acc.evaluations += 1
    comps = case["components"]
    _COMP_CLASSES.clear()
    STATE["log"] = log = []
    STATE["modes"] = {}
    STATE["order"] = case["order"]
    STATE["robot"] = None
    presets = {}
    twin = case.get("twin")
    for cn, c in comps.items():
        if c.get("same_class_as"):
            continue
        if twin and cn == twin["a"]:
            def t_init(self, flag: bool, _tw=twin):
                self._ctor_args = {"flag": flag}
                self._flag = flag
                if flag:
                    self.__dict__[_tw["attr"]] = "mine"
                log.append(("ctor", "twin", {"flag": flag}))
            tb = {"__init__": t_init, "setup": lambda self: on_setup(self, "twin"),
                  "__annotations__": {twin["attr"]: twin["ann"]}}
            tbases = ()
            if twin.get("state_machine"):
                # both components are instances of one magicbot.StateMachine subclass
                from magicbot.state_machine import StateMachine, state as sm_state

                def idle_state(self):
                    pass
                tb["idle_state"] = sm_state(first=True)(idle_state)
                tbases = (StateMachine,)
                acc.ev("rel:one-statemachine-class-two-components")
            else:
                tb["execute"] = lambda self: None
            _COMP_CLASSES[cn] = type("Ctwin" + cn, tbases, tb)
            continue
        body = {}
        base_body = {}
        ann, base_ann = {}, {}
        for lst, b, an in ((c["attrs"], body, ann), (c["base_attrs"], base_body, base_ann)):
            for a in lst:
                an[a["name"]] = a["ann"]
                if a["rel"] == "preset-class" and not a.get("is_tunable"):
                    v = make_value(tuple(a["preset"]))
                    b[a["name"]] = v
                    presets[(cn, a["name"])] = v
        init_presets = [a for a in c["attrs"] + c["base_attrs"] if a["rel"] == "preset-init"]
        ctor = c["ctor"]

        def __init__(self, _cn=cn, _ip=init_presets, **kw):
            for a in _ip:
                v = make_value(tuple(a["preset"]))
                setattr(self, a["name"], v)
                presets[(_cn, a["name"])] = v
            self._ctor_args = kw
            log.append(("ctor", _cn, dict(kw)))
        body["__init__"] = __init__
        body["execute"] = lambda self: None
        body["setup"] = lambda self, _cn=cn: on_setup(self, _cn)
        if c.get("truth") == "len0":
            body["__len__"] = lambda self: 0
            acc.ev("falsy-component-or-mode")
        elif c.get("truth") == "boolFalse":
            body["__bool__"] = lambda self: False
            acc.ev("falsy-component-or-mode")
        bases = ()
        if base_body or base_ann:
            base_body["__annotations__"] = base_ann
            bases = (type("B" + cn, (), base_body),)
        body["__annotations__"] = ann
        cls = type("C" + cn, bases, body)
        _COMP_CLASSES[cn] = cls
    for cn, c in comps.items():
        if c.get("same_class_as"):
            _COMP_CLASSES[cn] = _COMP_CLASSES[c["same_class_as"]]
    # resolve annotation names to real types now that all component classes exist
    for cn, c in comps.items():
        if c.get("same_class_as"):
            continue
        cls = _COMP_CLASSES[cn]
        cls.__annotations__ = {k: (ann_of(v) if isinstance(v, str) else v) for k, v in cls.__dict__.get("__annotations__", {}).items()}
        for b in cls.__bases__:
            if b.__name__.startswith("B") and "__annotations__" in b.__dict__:      # the generated base classes only
                b.__annotations__ = {k: (ann_of(v) if isinstance(v, str) else v) for k, v in b.__annotations__.items()}
        # annotated tunables are attached now that every annotation of the class resolves (tunable.__set_name__ reads them)
        for lst, target in ((c["attrs"], cls), (c["base_attrs"], next((b for b in cls.__bases__ if b.__name__.startswith("B")), cls))):
            for a in lst:
                if a.get("is_tunable"):
                    tv = make_value(tuple(a["preset"]))
                    setattr(target, a["name"], tv)
                    tv.__set_name__(target, a["name"])
                    presets[(cn, a["name"])] = tv
        if c["ctor"]:
            real_init = cls.__init__
            params = ", ".join(a["name"] for a in c["ctor"])
            ns = {"_real": real_init}
            kw = ", ".join(f"{a['name']}={a['name']}" for a in c["ctor"])
            exec(f"def __init__(self, {params}):\n    _real(self, {kw})\n", ns)
            init = ns["__init__"]
            if c.get("ctor_str"):
                # quoted annotations / `from __future__ import annotations`: the hints are source text, resolved in the
                # function's module namespace
                ns.update({k: v for k, v in T.items() if k.isidentifier()})
                ns.update({"CC_" + k: v for k, v in _COMP_CLASSES.items()})
                init.__annotations__ = {a["name"]: ("CC_" + a["ann"][5:] if a["ann"].startswith("comp:") else a["ann"]) for a in c["ctor"]}
                acc.ev("constructor-annotations-are-strings")
            else:
                init.__annotations__ = {a["name"]: ann_of(a["ann"]) for a in c["ctor"]}
            cls.__init__ = init
    robot_objs = {n: make_value(tuple(r["value"])) for n, r in case["robot_attrs"].items()}
    for c_ in list(comps.values()) + list(case["modes"]):
        for a_ in c_.get("attrs", []) + c_.get("base_attrs", []) + c_.get("ctor", []):
            if a_.get("robot_option"):
                acc.ev("robot-setting-requested-by-a-component")
                if a_["name"] not in robot_objs:
                    robot_objs[a_["name"]] = getattr(magicbot.MagicRobot, a_["name"])      # the framework's own default
    order, split = case["order"], case["split"]
    body0 = {"__annotations__": {n: _COMP_CLASSES[n] for n in order[:split]}}
    if stable_hash(case["uid"]) % 3 == 0:
        # a private annotated variable on the robot class is not a component declaration
        body0["__annotations__"]["_helper_" + case["uid"]] = T["T0"]
        acc.ev("private-annotation-on-robot-class")
    body1 = {"__annotations__": {n: _COMP_CLASSES[n] for n in order[split:]}}
    for n, r in case["robot_attrs"].items():
        if r["where"] == "class0":
            body0[n] = robot_objs[n]
        elif r["where"] == "class1":
            body1[n] = robot_objs[n]
        elif r["where"] == "class0+create":
            body0[n] = make_value(tuple(r["stale"]))
            acc.ev("class-level-default-replaced-in-createObjects")
        elif r["where"] == "class1+create":
            body1[n] = make_value(tuple(r["stale"]))
            acc.ev("class-level-default-replaced-in-createObjects")

    def createObjects(self):
        for n, r in case["robot_attrs"].items():
            if r["where"].endswith("create"):
                setattr(self, n, robot_objs[n])
    body0["createObjects"] = createObjects
    body0["teleopPeriodic"] = lambda self: None
    R0 = type("R0" + case["uid"], (magicbot.MagicRobot,), body0)
    R1 = type("R1" + case["uid"], (R0,), body1)
    root = tempfile.mkdtemp(prefix="vf-inj-")
    purge_autonomous()
    sys.path.insert(0, root)
    exc = None
    try:
        write_modes(case, root)
        hs.resetGlobalHandles()
        DriverStationSim.resetData()
        if case.get("fms"):
            # a field connection at start-up must not turn a missing / mistyped dependency into a running robot
            import wpilib
            DriverStationSim.setFmsAttached(True)
            DriverStationSim.setDsAttached(True)
            DriverStationSim.notifyNewData()
            wpilib.DriverStation.refreshData()
            acc.ev("fms-attached-at-startup")
        robot = R1()
        STATE["robot"] = robot
        STATE["strict_repr"] = True
        try:
            robot.robotInit()
        except Exception as e:  # noqa
            exc = e
        finally:
            STATE["strict_repr"] = False
        # ---- expectation
        injectables_attr = dict(robot_objs)
        expected = {}
        errors = set()
        for i, cn in enumerate(order):
            c = comps[cn]
            for a in c["ctor"]:
                avail = dict(robot_objs)
                for e in order[:i]:
                    avail[e] = "component:" + e
                r = resolve_ctor(cn, a, avail, _COMP_CLASSES, order[:i])
                expected[(cn, "ctor", a["name"])] = r
                if r[0] == "error":
                    errors.add(r[1])
                acc.ev("rel:ctor-param")
        for cn in order:
            c = comps[cn]
            for a in c["attrs"] + c["base_attrs"]:
                if a["rel"] == "shadowed-by-subclass-annotation":
                    acc.ev("rel:reannotated-in-subclass")
                    continue
                r = resolve_attr(cn, a, robot_objs, order, _COMP_CLASSES)
                expected[(cn, "attr", a["name"])] = r
                if r[0] == "error":
                    errors.add(r[1])
                _count_rel(acc, a, cn, order)
                if a.get("also_ctor"):
                    acc.ev("rel:constructor-parameter-also-requested-as-attribute")
                if a in c["base_attrs"]:
                    acc.ev("rel:inherited-annotation")
        for m in case["modes"]:
            for a in m["attrs"]:
                r = resolve_attr(m["name"], a, robot_objs, order, _COMP_CLASSES)
                expected[(m["name"], "attr", a["name"])] = r
                if r[0] == "error":
                    errors.add(r[1])
                acc.ev("rel:mode-target")
        if twin:
            acc.ev("rel:one-class-two-components")
            for cn in (twin["a"], twin["b"]):
                if twin["flags"][cn]:
                    expected[(cn, "twinattr", twin["attr"])] = ("keep", "mine")
                else:
                    expected[(cn, "twinattr", twin["attr"])] = ("inject", robot_objs[twin["attr"]])
        acc.checks += 1
        if errors:
            if exc is None:
                acc.violation("C08/started-with-bad-dependency",
                              f"startup succeeded although {sorted(errors)} dependencies exist: "
                              + "; ".join(f"{k}: {v[1]}" for k, v in expected.items() if v[0] == "error"), case, {})
                return
            if not isinstance(exc, MagicInjectError):
                acc.violation("C08/wrong-error-type", f"startup failed with {exc!r}, expected an injection error (MagicInjectError)", case, {})
                return
            acc.ev("startup-failed-as-expected")
            acc.nontrivial.add(stable_hash(case))
            return
        if exc is not None:
            acc.violation("C08/valid-robot-rejected", f"robotInit() raised {exc!r} although every dependency is satisfiable", case, {})
            return
        # ---- identity of every injected attribute, inside the first setup() and afterwards
        first_setup = next((i for i, e in enumerate(log) if e[0] == "setup"), None)
        comp_objs = {cn: getattr(robot, cn, None) for cn in order}
        mode_objs = dict(STATE["modes"])
        snap0 = log[first_setup][2] if first_setup is not None else None

        def obj_of(owner):
            return comp_objs.get(owner) if owner in comp_objs else mode_objs.get(owner)
        for (owner, kind, name), r in expected.items():
            tgt = obj_of(owner)
            if tgt is None:
                acc.violation("C08/owner-missing", f"{owner} was not created", case, {})
                return
            if kind == "twinattr":
                got = vars(tgt).get(name, ABSENT)
                acc.checks += 1
                if r[0] == "keep" and got != "mine":
                    acc.violation("C08/preset-overwritten", f"{owner}.{name} was set by __init__ (flag true) but now is {got!r} "
                                  "(the other instance of the same class needed injection)", case, {})
                    return
                if r[0] == "inject" and got is not r[1]:
                    acc.violation("C08/attr-identity", f"{owner}.{name} is {got!r}, expected the robot's {r[1]!r} "
                                  "(the other instance of the same class had set it in __init__)", case, {})
                    return
                continue
            if kind == "ctor":
                got = tgt._ctor_args.get(name, ABSENT)
                want = r[1]
                if isinstance(want, str) and want.startswith("component:"):
                    want = comp_objs[want[10:]]
                acc.checks += 1
                if got is not want:
                    acc.violation("C08/ctor-identity", f"{owner}.__init__ parameter {name} received {got!r}, expected the robot's {want!r}", case, {})
                    return
                continue
            if r[0] == "inject":
                want = r[1]
                if isinstance(want, str) and want.startswith("component:"):
                    want = comp_objs[want[10:]]
                got = vars(tgt).get(name, ABSENT)
                acc.checks += 1
                acc.ev("identity-checked-after-init")
                if snap0 is not None:
                    acc.checks += 1
                    acc.ev("identity-checked-in-setup")
                    early = (snap0.get(owner) or {}).get(name, ABSENT)
                    if early is not want:
                        acc.violation("C08/not-injected-before-setup",
                                      f"when the first setup() ran, {owner}.{name} was {early!r} instead of the robot's {want!r}", case, {})
                        return
                if got is not want:
                    acc.violation("C08/attr-identity", f"{owner}.{name} is {got!r}, expected the very object {want!r} stored on the robot", case,
                                  {"relation": next((a["rel"] for c in comps.values() for a in c["attrs"] + c["base_attrs"] if a["name"] == name), None)})
                    return
            else:
                acc.checks += 1
                acc.ev("untouched-checked")
                if name.startswith("_"):
                    if name in vars(tgt):
                        acc.violation("C08/private-touched", f"{owner}.{name} (private) was injected with {vars(tgt)[name]!r}", case, {})
                        return
                else:
                    want = presets.get((owner, name), ABSENT)
                    got = getattr(tgt, name, ABSENT)
                    if type(want).__name__ == "tunable":
                        acc.ev("annotated-tunable-left-alone")
                        want = got if got == want._ntdefault else want._ntdefault
                    if want is not ABSENT and got is not want:
                        acc.violation("C08/preset-overwritten", f"{owner}.{name} already had the value {want!r} but now is {got!r}", case, {})
                        return
        # setup order evidence: all ctor events precede all setup events
        kinds = [e[0] for e in log]
        if "setup" in kinds and "ctor" in kinds[kinds.index("setup"):]:
            acc.violation("C08/setup-before-all-created", "a constructor ran after some setup()", case, {})
            return
        if len(order) >= 2 and any(a["rel"] in ("prefixed", "falsy", "component") for c in comps.values() for a in c["attrs"] + c["base_attrs"] + c["ctor"]):
            acc.nontrivial.add(stable_hash(case))
    finally:
        try:
            sys.path.remove(root)
        except ValueError:
            pass
        purge_autonomous()
        shutil.rmtree(root, ignore_errors=True)


def _count_rel(acc, a, cn, order):
    rel = a["rel"]
    if rel == "component":
        rel = "component-earlier" if order.index(a["name"]) < order.index(cn) else "component-later"
    acc.ev("rel:" + rel)
    if a["ann"] in ("CallT", "partial", "type"):
        acc.ev("callable-robot-attribute")
    if a["ann"] == "Proto":
        acc.ev("structural-or-mock-instance")


def resolve_attr(owner, a, robot_objs, order, comp_classes):
    inj = dict(robot_objs)
    for cn in order:
        inj[cn] = "component:" + cn
    return _resolve(owner, a, inj, comp_classes)


def resolve_ctor(owner, a, avail, comp_classes, earlier):
    if a["rel"] == "component-later-ctor":
        return ("error", "absent")
    return _resolve(owner, a, avail, comp_classes)


def _resolve(owner, a, inj, comp_classes):
    n = a["name"]
    if n.startswith("_") or "preset" in a:
        return ("untouched",)
    obj = inj.get(n, ABSENT)
    if obj is ABSENT or obj is None:
        obj = inj.get(f"{owner}_{n}", ABSENT)
    if obj is ABSENT or obj is None:
        return ("error", "absent")
    if isinstance(obj, str) and obj.startswith("component:"):
        ok = a["ann"] == "comp:" + obj[10:]
        return ("inject", obj) if ok else ("error", "type")
    if a["ann"].startswith("comp:"):
        return ("error", "type")
    if not isinstance(obj, origin_type(a["ann"], comp_classes)):
        return ("error", "type")
    return ("inject", obj)


def run_shard(spec):
    import hal.simulation as hs
    hs.pauseTiming()
    rng = random.Random(spec["seed"])
    acc = Acc()
    for i in range(spec["n"]):
        case = gen_case(rng, f"{spec['seed'] % 46656:x}x{i:x}")
        case["hist"] = [spec["seed"], i]
        run_case(acc, case)
        if i < 2:
            acc.samples.append({"order": case["order"], "split": case["split"],
                                "components": {k: {kk: [(a["name"], a["ann"], a["rel"]) for a in vv] for kk, vv in v.items() if isinstance(vv, list)}
                                               for k, v in case["components"].items()},
                                "one_class_two_components": case.get("twin"),
                                "robot_attrs": {k: v["where"] for k, v in case["robot_attrs"].items()}})
    return acc.result()


def replay(pid, case):
    import hal.simulation as hs
    hs.pauseTiming()
    acc = Acc()
    run_case(acc, case)
    if not acc.violations and "hist" in case:
        # not reproducible alone: repeat it behind the robots that were built before it in its shard (process-wide state in
        # the library: caches keyed by id(), class-level containers)
        seed, idx = case["hist"]
        rng = random.Random(seed)
        acc = Acc()
        for i in range(idx):
            run_case(acc, gen_case(rng, f"{seed % 46656:x}x{i:x}"))
            if acc.violations:
                # (which robot of the sequence trips over recycled ids / shared containers varies between processes)
                acc.violations[0]["what"] = f"(robot #{i} of the shard's sequence, seed {seed}) " + acc.violations[0]["what"]
                return acc.violations[0]
        run_case(acc, case)
    return acc.violations[0] if acc.violations else None
