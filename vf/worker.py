"""Worker process entry: python -m vf.worker <engine> shard|replay <in.json> <out.json>"""
import faulthandler
import importlib
import json
import os
import sys
import threading
import traceback

LOST = []  # exceptions lost in threads / destructors become recorded events


def _thread_hook(args):
    LOST.append(("thread", repr(args.exc_value)))


def _unraisable(args):
    LOST.append(("unraisable", repr(args.exc_value)))


REACHED = {}


def _watch_repo_functions(repo):
    """sys.monitoring PY_START, restricted to code objects defined under the repository: records WHICH library
    functions the workload actually entered (function level, survives line shifts).  Each code object reports once
    and is then disabled, so the cost is negligible."""
    mon = getattr(sys, "monitoring", None)
    if mon is None:
        return
    root = os.path.abspath(repo) + os.sep
    tool = 4

    def on_start(code, offset):
        fn = code.co_filename
        if fn.startswith(root) and not fn.startswith(root + "tests"):
            REACHED[f"{fn[len(root):]}:{code.co_qualname}"] = 1
        return mon.DISABLE
    try:
        mon.use_tool_id(tool, "vf-anchors")
        mon.register_callback(tool, mon.events.PY_START, on_start)
        mon.set_events(tool, mon.events.PY_START)
    except Exception:  # noqa
        pass


LINES = set()


def _watch_repo_lines(repo):
    """Optional (VF_LINECOV_DIR): which lines of the repository's sources the workload executed.  LINE events, each location
    reports once and is then disabled.  Used by tools/linecov.py to find branches no generated case reaches."""
    mon = getattr(sys, "monitoring", None)
    if mon is None:
        return
    root = os.path.abspath(repo) + os.sep
    tool = 5

    def on_line(code, line):
        fn = code.co_filename
        if fn.startswith(root):
            LINES.add((fn[len(root):], line))
        return mon.DISABLE
    mon.use_tool_id(tool, "vf-lines")
    mon.register_callback(tool, mon.events.LINE, on_line)
    mon.set_events(tool, mon.events.LINE)


def _dump_lines():
    d = os.environ.get("VF_LINECOV_DIR")
    if d:
        with open(os.path.join(d, f"{os.getpid()}.json"), "w") as f:
            json.dump(sorted(LINES), f)


def main():
    engine_name, mode, inp, out = sys.argv[1:5]
    faulthandler.enable()
    threading.excepthook = _thread_hook
    sys.unraisablehook = _unraisable
    import logging
    logging.disable(logging.CRITICAL)  # library chatter; monitors that need records re-enable
    with open(inp) as f:
        payload = json.load(f)
    repo = os.environ.get("VERIF_REPO", "/repo")
    engine = importlib.import_module("vf." + engine_name)
    # the code under test must come from the tree we were pointed at
    for modname in ("magicbot", "robotpy_ext"):
        m = importlib.import_module(modname)
        if not os.path.abspath(m.__file__).startswith(os.path.abspath(repo) + os.sep):
            raise SystemExit(f"{modname} imported from {m.__file__}, expected under {repo}")
    _watch_repo_functions(repo)
    if os.environ.get("VF_LINECOV_DIR"):
        _watch_repo_lines(repo)
    if mode == "shard":
        res = engine.run_shard(payload)
        res.setdefault("extra", {})["library_functions_entered"] = sorted(REACHED)
    else:
        v = engine.replay(payload["pid"], payload["case"])
        res = {"violation": v}
        if payload.get("verbose") and isinstance(v, dict) and "trace" in v:
            res["trace"] = v.pop("trace")
    res["lost_exceptions"] = LOST[:20]
    _dump_lines()
    with open(out, "w") as f:
        json.dump(res, f, default=repr)
    sys.stdout.flush()
    os._exit(0)  # skip interpreter teardown (robot threads / NT server sockets)


if __name__ == "__main__":
    try:
        main()
    except SystemExit:
        raise
    except BaseException:
        traceback.print_exc()
        sys.stderr.flush()
        os._exit(3)
