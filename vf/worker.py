"""Worker process entry: python -m vf.worker <engine> shard|replay <in.json> <out.json>"""
import faulthandler
import importlib
import json
import os
import sys
import threading
import traceback

LOST = []  # exceptions lost in threads / destructors become recorded events


def _thread_hook(args):
    LOST.append(("thread", repr(args.exc_value)))


def _unraisable(args):
    LOST.append(("unraisable", repr(args.exc_value)))


def main():
    engine_name, mode, inp, out = sys.argv[1:5]
    faulthandler.enable()
    threading.excepthook = _thread_hook
    sys.unraisablehook = _unraisable
    import logging
    logging.disable(logging.CRITICAL)  # library chatter; monitors that need records re-enable
    with open(inp) as f:
        payload = json.load(f)
    repo = os.environ.get("VERIF_REPO", "/repo")
    engine = importlib.import_module("vf." + engine_name)
    # the code under test must come from the tree we were pointed at
    for modname in ("magicbot", "robotpy_ext"):
        m = importlib.import_module(modname)
        if not os.path.abspath(m.__file__).startswith(os.path.abspath(repo) + os.sep):
            raise SystemExit(f"{modname} imported from {m.__file__}, expected under {repo}")
    if mode == "shard":
        res = engine.run_shard(payload)
    else:
        v = engine.replay(payload["pid"], payload["case"])
        res = {"violation": v}
        if payload.get("verbose") and isinstance(v, dict) and "trace" in v:
            res["trace"] = v.pop("trace")
    res["lost_exceptions"] = LOST[:20]
    with open(out, "w") as f:
        json.dump(res, f, default=repr)
    sys.stdout.flush()
    os._exit(0)  # skip interpreter teardown (robot threads / NT server sockets)


if __name__ == "__main__":
    try:
        main()
    except SystemExit:
        raise
    except BaseException:
        traceback.print_exc()
        sys.stderr.flush()
        os._exit(3)
