"""C12 - malformed StateMachine definitions are rejected at definition / instantiation time;
accepted machines list exactly their states."""
from __future__ import annotations

import inspect
import itertools
import random

from .common import Acc, stable_hash

PROPERTIES = {"C12": "definition-time checks"}
RULE = {"C12": "exhaustive: every attribute name of StateMachine (public, private, dunder) as a state name x 3 decorators; "
               "every illegal signature element (first parameter, *args, **kwargs, keyword-only, foreign names, mixed) and all "
               "16 legal ordered subsets x 3 decorators; aliasing; states outside a StateMachine; direct calls.  Random: class "
               "hierarchies (single / linear / diamond, 1-5 classes, overriding by state and by non-state) with k first and j "
               "default states after overriding.  Non-trivial = hierarchy with >=2 classes and >=1 override, or an exhaustive "
               "item; distinct = hash of the definition."}
RULE["C12"] += '  Also: aliases of inherited states in child / grandchild / mix-in classes; every definition item once in natural and once in a shuffled order.'
REQUIRED = {"C12": {"machine-bound-under-a-used-name": 50, "alias-of-inherited-state-rejected": 27, "forbidden-name-rejected": 100, "illegal-signature-rejected": 100, "legal-signature-accepted": 48,
                    "alias-rejected": 3, "outside-statemachine-rejected": 3, "direct-call-rejected": 50,
                    "hier-accepted": 100, "hier-no-first": 30, "hier-multiple-first": 30, "hier-multiple-default": 30,
                    "hier-override-by-state": 50, "hier-override-by-nonstate": 20, "hier-diamond": 30,
                    "state_names-checked": 100, "base-instantiated-first": 30}}
ASSUMPTIONS = {"C12": ["'a StateMachine attribute' is read as hasattr(StateMachine, name); names that exist only as annotations are probed and reported, not judged",
                       "the position of an overridden state in state_names, and the order between sibling base classes, are not specified"]}

# the documented public interface of StateMachine - what "a StateMachine attribute" means to a user - pinned here so that
# the list of names that must be refused does not shrink with the implementation's own reflection
# (state_names / state_descriptions / logger exist on the class only as annotations: probed and reported, not judged - see ASSUMPTIONS)
PINNED = ["VERBOSE_LOGGING", "current_state", "done", "engage", "execute", "is_executing", "next_state", "next_state_now",
          "on_disable", "on_enable"]
PARAMS = ("tm", "state_tm", "initial_call")
SUBSETS = [list(p) for r in range(4) for p in itertools.permutations(PARAMS, r)]
FOREIGN = ["x", "t", "time", "state", "tm2", "initialcall", "Tm", "state_time", "args", "kwargs", "cls", "self2", "_tm"]
POOL = ["n1", "n2", "n3", "n4", "n5", "n6", "_p1", "_p2"]     # a leading underscore is a legal state name


class _Unprintable:
    """An argument that cannot describe itself (whatever is passed, a direct call is refused with IllegalCallError)."""

    def __repr__(self):
        raise RuntimeError("vf: this object cannot be printed")
    __str__ = __repr__


def shards(pid, tier, seed):
    if tier == "quick":
        return [{"mode": "exhaustive"}] + [{"mode": "hier", "n": 800} for _ in range(4)]
    return [{"mode": "exhaustive"}] + [{"mode": "hier", "n": 20000} for _ in range(31)]


def _fn(name, params_src, doc=None):
    ns = {}
    exec(f"def {name}({params_src}):\n    return None\n", ns)
    f = ns[name]
    f.__doc__ = doc
    return f


def _decorators():
    from magicbot.state_machine import state, timed_state, default_state
    return {
        "state": lambda f, **kw: state(f) if not kw else state(**kw)(f),
        "timed_state": lambda f, **kw: timed_state(duration=1.0, **kw)(f),
        "default_state": lambda f, **kw: default_state(f),
    }


def _is(exc, cls):
    """Raised directly, or (older interpreters) as __cause__ of the RuntimeError that type() raises."""
    return isinstance(exc, cls) or (isinstance(exc, RuntimeError) and isinstance(exc.__cause__, cls))


# ----------------------------------------------------------------------------- exhaustive items
def run_item(acc, item):
    """One definition-time item. item: dict(kind, ...)."""
    import magicbot.state_machine as smm
    SM = smm.StateMachine
    decs = _decorators()
    k = item["kind"]
    acc.evaluations += 1
    acc.checks += 1
    acc.nontrivial.add(stable_hash({k_: v_ for k_, v_ in item.items() if k_ != "seq"}))
    if k == "name":
        name, dec = item["name"], item["dec"]
        try:
            st = decs[dec](_fn(name, "self"))
            type("T", (SM,), {name: st})
        except Exception as e:  # noqa
            if _is(e, smm.InvalidStateName):
                acc.ev("forbidden-name-rejected")
            else:
                acc.violation("C12/forbidden-name-wrong-error", f"state named {name!r} ({dec}): raised {e!r}, expected InvalidStateName", item, {})
            return
        if hasattr(SM, name) or name in PINNED:
            acc.violation("C12/forbidden-name-accepted", f"a state named {name!r} ({dec}) collides with a StateMachine attribute but was accepted", item, {})
        else:
            acc.ev("annotation-only-name-accepted(observation)")
    elif k == "sig":
        params, dec, legal = item["params"], item["dec"], item["legal"]
        try:
            st = decs[dec](_fn("n1", params), **({"first": True} if dec != "default_state" else {}))
            body = {"n1": st}
            if dec == "default_state":
                body["n0"] = decs["state"](_fn("n0", "self"), first=True)
            cls = type("T", (SM,), body)
            m = cls()
        except Exception as e:  # noqa
            if legal:
                acc.violation("C12/legal-signature-rejected", f"legal signature ({params}) on {dec} raised {e!r}", item, {})
            elif _is(e, ValueError) and not _is(e, smm.InvalidStateName):
                acc.ev("illegal-signature-rejected")
            else:
                acc.violation("C12/illegal-signature-wrong-error", f"signature ({params}) on {dec}: raised {e!r}, expected ValueError", item, {})
            return
        if not legal:
            acc.violation("C12/illegal-signature-accepted", f"illegal signature ({params}) on {dec} was accepted", item, {})
            return
        acc.ev("legal-signature-accepted")
        # direct call of a state method
        for call in (lambda: m.n1(), lambda: m.n1(1.0, 2.0, True), lambda: cls.n1(m), lambda: m.n1(tm=0.0),
                     lambda: m.n1(initial_call=True, state_tm=1.0), lambda: m.n1(_Unprintable()), lambda: m.n1(tm=_Unprintable())):
            acc.checks += 1
            try:
                call()
            except smm.IllegalCallError:
                acc.ev("direct-call-rejected")
            except Exception as e:  # noqa
                acc.violation("C12/direct-call-wrong-error", f"calling a state directly raised {e!r}", item, {})
            else:
                acc.violation("C12/direct-call-accepted", "calling a state method directly did not raise IllegalCallError", item, {})
    elif k == "alias":
        dec = item["dec"]
        try:
            st = decs[dec](_fn("n1", "self"), **({"first": True} if dec != "default_state" else {}))
            ns = {"n1": st, item["alias"]: st} if item["order"] == 0 else {item["alias"]: st, "n1": st}
            type("T", (SM,), ns)
        except Exception as e:  # noqa
            if _is(e, smm.InvalidStateName):
                acc.ev("alias-rejected")
            else:
                acc.violation("C12/alias-wrong-error", f"aliased state raised {e!r}, expected InvalidStateName", item, {})
            return
        acc.violation("C12/alias-accepted", f"state n1 bound as attribute {item['alias']!r} was accepted", item, {})
    elif k == "alias-sub":
        # a subclass (or a class that mixes the owner in, or a grandchild) re-exports an inherited state under another name
        dec = item["dec"]
        try:
            st = decs[dec](_fn("n1", "self"), **({"first": True} if dec != "default_state" else {}))
            base = type("B", (SM,), {"n1": st})
            if item["via"] == "grandchild":
                base = type("M", (base,), {})
            elif item["via"] == "mixin":
                base = type("M", (type("Other", (SM,), {}), base), {})
            type("T", (base,), {item["alias"]: getattr(base, "n1")})
        except Exception as e:  # noqa
            if _is(e, smm.InvalidStateName):
                acc.ev("alias-rejected")
                acc.ev("alias-of-inherited-state-rejected")
            else:
                acc.violation("C12/alias-wrong-error", f"inherited state re-exported as {item['alias']!r} raised {e!r}, expected InvalidStateName", item, {})
            return
        acc.violation("C12/alias-accepted", f"inherited state n1 bound as attribute {item['alias']!r} of a {item['via']} class was accepted", item, {})
    elif k == "outside":
        dec = item["dec"]
        try:
            st = decs[dec](_fn("n1", "self"), **({"first": True} if dec != "default_state" else {}))
            base = {"object": (), "plain": (type("P", (), {}),)}[item["base"]]
            type("T", base, {"n1": st})
        except Exception as e:  # noqa
            if _is(e, TypeError):
                acc.ev("outside-statemachine-rejected")
            else:
                acc.violation("C12/outside-wrong-error", f"state in a non-StateMachine class raised {e!r}, expected TypeError", item, {})
            return
        acc.violation("C12/outside-accepted", "a state defined in a class that is not a StateMachine was accepted", item, {})


def exhaustive_items():
    import magicbot.state_machine as smm
    items = []
    names = sorted(set(dir(smm.StateMachine)) | set(getattr(smm.StateMachine, "__annotations__", {})) | set(PINNED))
    for name in names:
        if not name.isidentifier():
            continue
        for dec in ("state", "timed_state", "default_state"):
            items.append({"kind": "name", "name": name, "dec": dec})
    illegal = ["this", "tm", "", "self, *args", "self, **kwargs", "self, *, tm", "self, tm, *, initial_call", "self, tm, *args",
               "self, tm, **kw", "*args", "**kwargs", "self, *tm", "self, **state_tm"]
    illegal += [f"self, {f}" for f in FOREIGN] + [f"self, tm, {f}" for f in FOREIGN] + [f"self, {f}, initial_call, state_tm" for f in FOREIGN[:6]]
    illegal += [f"{f}, tm" for f in ("me", "s", "cls", "state_tm")]
    illegal += ["tm, self", "initial_call, self, tm", "state_tm, self", "tm, self, state_tm"]     # self present, but not first
    illegal += ["*self", "**self", "*, self", "*self, tm", "self=None, *, tm"]                      # the first parameter itself is of an illegal kind
    illegal += ["self, tm, state_tm, initial_call, x", "self, initial_call, tm, state_tm, *args", "self, state_tm, tm, initial_call, **kw",
                "self, tm, state_tm, initial_call, *, k"]                                               # an illegal FIFTH parameter
    for dec in ("state", "timed_state", "default_state"):
        for p in illegal:
            if p == "":
                continue        # no parameters at all: observation only (DESIGN), not generated as a verdict item
            items.append({"kind": "sig", "params": p, "dec": dec, "legal": False})
        for sub in SUBSETS:
            items.append({"kind": "sig", "params": ", ".join(["self"] + sub), "dec": dec, "legal": True})
        for alias, order in (("n2", 0), ("other", 1), ("_n1", 0)):
            items.append({"kind": "alias", "dec": dec, "alias": alias, "order": order})
        for base in ("object", "plain"):
            items.append({"kind": "outside", "dec": dec, "base": base})
        for via in ("child", "grandchild", "mixin"):
            for alias in ("other", "n2", "_n1"):
                items.append({"kind": "alias-sub", "dec": dec, "via": via, "alias": alias})
    return items


# ----------------------------------------------------------------------------- random hierarchies
def gen_hier(rng):
    shape = rng.choice(["single", "linear", "linear", "diamond", "diamond", "wide", "mixin"])
    if shape == "single":
        classes = [("A", [])]
    elif shape == "linear":
        n = rng.randrange(2, 5)
        classes = [(chr(65 + i), [chr(64 + i)] if i else []) for i in range(n)]
    elif shape == "diamond":
        classes = [("A", []), ("B", ["A"]), ("C", ["A"]), ("D", ["B", "C"])]
        if rng.random() < 0.3:
            classes.append(("E", ["D"]))
    elif shape == "mixin":
        # P is a plain helper class (not a StateMachine) listed BEFORE the machine base: what it defines overrides the
        # inherited states of the same name, as for any Python attribute
        classes = [("A", []), ("P", []), ("C", ["P", "A"])]
        if rng.random() < 0.4:
            classes.append(("D", ["C"]))
    else:
        classes = [("A", []), ("B", []), ("C", ["A", "B"])]
    out = []
    p_first = rng.choice([0.15, 0.3, 0.5])
    p_default = rng.choice([0.1, 0.25])
    for name, bases in classes:
        members = []
        plain = shape == "mixin" and name == "P"
        for nm in rng.sample(POOL, rng.randrange(0, 4) if not plain else rng.randrange(1, 4)):
            r = rng.random() if not plain else 0.0
            if r < 0.12:
                members.append({"name": nm, "kind": rng.choice(["method", "attr"])})
            elif r < 0.12 + p_default:
                members.append({"name": nm, "kind": "default", "doc": rng.choice([None, f"{name}.{nm} doc"])})
            else:
                members.append({"name": nm, "kind": rng.choice(["state", "timed"]), "first": rng.random() < p_first,
                                "doc": rng.choice([None, f"{name}.{nm} doc", f"\n    {name}.{nm}\n      indented\n    ",
                                                   f"{name}.{nm}: " + "a long description of what this state does, " * 9])})
        out.append({"name": name, "bases": bases, "members": members, "plain": plain})
    return {"mode": "hier", "shape": shape, "classes": out, "instantiate_bases": rng.random() < 0.5, "reuse_name": rng.random() < 0.2}


def run_hier(acc, case, uid):
    import magicbot.state_machine as smm
    from magicbot.magic_tunable import setup_tunables
    import ntcore
    SM = smm.StateMachine
    decs = _decorators()
    acc.evaluations += 1
    built = {}
    spec_of = {}
    try:
        for c in case["classes"]:
            body = {}
            for mb in c["members"]:
                nm = mb["name"]
                if mb["kind"] == "method":
                    body[nm] = _fn(nm, "self")
                elif mb["kind"] == "attr":
                    body[nm] = 42
                elif mb["kind"] == "default":
                    body[nm] = decs["default_state"](_fn(nm, "self", mb.get("doc")))
                else:
                    kw = {"first": (1 if len(nm) % 2 else True)} if mb.get("first") else {}      # first=1 is as good as first=True
                    body[nm] = decs["state" if mb["kind"] == "state" else "timed_state"](_fn(nm, "self, tm", mb.get("doc")), **kw)
            bases = tuple(built[b] for b in c["bases"]) or ((object,) if c.get("plain") else (SM,))
            built[c["name"]] = type(c["name"], bases, body)
            spec_of[built[c["name"]]] = c
    except Exception as e:  # noqa
        acc.violation("C12/hier-definition-raised", f"defining a well-formed hierarchy raised {e!r}", case, {})
        return
    final = built[case["classes"][-1]["name"]]

    def effective(cls_):
        # effective members by Python's own attribute lookup order
        e = {}
        for klass in cls_.__mro__:
            c = spec_of.get(klass)
            if c is None:
                continue
            for mb in c["members"]:
                e.setdefault(mb["name"], (klass, mb))
        return e
    # valid base classes are instantiated first (a robot may use both a machine and a machine derived from it):
    # what a base instance does must not leak into how the subclass is judged
    if case.get("instantiate_bases"):
        for c in case["classes"][:-1]:
            be = effective(built[c["name"]])
            bs = [mb for _, mb in be.values() if mb["kind"] in ("state", "timed", "default")]
            if sum(1 for mb in bs if mb.get("first")) == 1 and sum(1 for mb in bs if mb["kind"] == "default") <= 1:
                try:
                    built[c["name"]]()
                    acc.ev("base-instantiated-first")
                except Exception as e:  # noqa
                    acc.violation("C12/valid-machine-rejected", f"valid base machine {c['name']} raised {e!r}", case, {})
                    return
    eff = effective(final)
    states = {n: v for n, v in eff.items() if v[1]["kind"] in ("state", "timed", "default")}
    k = sum(1 for _, mb in states.values() if mb.get("first"))
    j = sum(1 for _, mb in states.values() if mb["kind"] == "default")
    overridden = set()
    n_over_state = n_over_non = 0
    for klass in final.__mro__:
        c = spec_of.get(klass)
        if c is None:
            continue
        for mb in c["members"]:
            if eff[mb["name"]][0] is not klass:
                overridden.add(mb["name"])
                if mb["kind"] in ("state", "timed", "default"):
                    if eff[mb["name"]][1]["kind"] in ("method", "attr"):
                        n_over_non += 1
                    else:
                        n_over_state += 1
    if n_over_state:
        acc.ev("hier-override-by-state")
    if n_over_non:
        acc.ev("hier-override-by-nonstate")
    if case["shape"] == "diamond":
        acc.ev("hier-diamond")
    if case["shape"] == "mixin":
        acc.ev("hier-plain-mixin-before-the-machine-base")
    if len(case["classes"]) >= 2 and overridden:
        acc.nontrivial.add(stable_hash(case))
    allowed = []
    if k == 0:
        allowed.append(smm.NoFirstStateError)
    if k >= 2:
        allowed.append(smm.MultipleFirstStatesError)
    if j >= 2:
        allowed.append(smm.MultipleDefaultStatesError)
    acc.checks += 1
    try:
        m = final()
    except Exception as e:  # noqa
        if allowed and any(type(e) is a for a in allowed):
            acc.ev({smm.NoFirstStateError: "hier-no-first", smm.MultipleFirstStatesError: "hier-multiple-first",
                    smm.MultipleDefaultStatesError: "hier-multiple-default"}[type(e)])
        elif allowed:
            acc.violation("C12/instantiation-wrong-error", f"{k} first / {j} default states: raised {e!r}, expected one of {[a.__name__ for a in allowed]}", case, {})
        else:
            acc.violation("C12/valid-machine-rejected", f"machine with exactly one first and {j} default state(s) raised {e!r}", case, {})
        return
    if allowed:
        acc.violation("C12/invalid-machine-accepted", f"machine with {k} first and {j} default states after overriding was instantiated "
                      f"(expected {[a.__name__ for a in allowed]})", case, {"states": sorted(states)})
        return
    acc.ev("hier-accepted")
    # ---- state_names / state_descriptions
    import logging
    m.logger = logging.getLogger(uid)
    if case.get("reuse_name"):
        # another machine class was bound under this component name earlier in the process (robot code reloaded in a
        # simulator session, a test suite creating several robots)
        prev = type("Prev", (SM,), {"zz_prev": decs["state"](_fn("zz_prev", "self", "old doc"), first=True)})()
        prev.logger = m.logger
        setup_tunables(prev, uid)
        # (the earlier object is still alive and still publishing - a topic nobody publishes loses its value anyway)
        prev_entries = list(prev._tunables.values())
        acc.ev("machine-bound-under-a-used-name")
    setup_tunables(m, uid)
    inst = ntcore.NetworkTableInstance.getDefault()
    names = list(m.state_names)
    descs = list(m.state_descriptions)
    nt_names = inst.getStringArrayTopic(f"/components/{uid}/state/state_names").subscribe([])
    nt_desc = inst.getStringArrayTopic(f"/components/{uid}/state/state_descriptions").subscribe([])
    acc.checks += 4
    acc.ev("state_names-checked")
    try:
        if list(nt_names.get()) != names or list(nt_desc.get()) != descs:
            acc.violation("C12/state_names-nt", f"NetworkTables state_names/state_descriptions {nt_names.get()!r}/{nt_desc.get()!r} differ from the attributes {names!r}/{descs!r}", case, {})
            return
    finally:
        nt_names.close()
        nt_desc.close()
        for e in m._tunables.values():
            e.close()
        for e in locals().get("prev_entries", ()):
            e.close()
    if sorted(names) != sorted(states) or len(set(names)) != len(names):
        acc.violation("C12/state_names-set", f"state_names {names!r} but the machine's states are {sorted(states)!r}", case, {})
        return
    if len(descs) != len(names):
        acc.violation("C12/state_descriptions-length", f"{len(descs)} descriptions for {len(names)} names", case, {})
        return
    for nm, d in zip(names, descs):
        want = inspect.cleandoc(states[nm][1].get("doc") or "") if states[nm][1].get("doc") else ""
        if d != want:
            acc.violation("C12/state_descriptions-aligned", f"description of {nm} is {d!r}, expected {want!r} (names {names!r})", case, {})
            return
    # order: definition order within a class; a class's states after those of its base classes (non-overridden only)
    pos = {n: i for i, n in enumerate(names)}
    plain = [n for n in names if n not in overridden]
    for a, b in itertools.permutations(plain, 2):
        ka, kb = states[a][0], states[b][0]
        must = False
        if ka is kb:
            order = [mb["name"] for mb in spec_of[ka]["members"]]
            must = order.index(a) < order.index(b)
        elif issubclass(kb, ka):
            must = True
        if must and pos[a] > pos[b]:
            acc.violation("C12/state_names-order", f"state_names {names!r}: {a} (class {ka.__name__}) must precede {b} (class {kb.__name__})", case, {})
            return


def run_shard(spec):
    rng = random.Random(spec["seed"])
    acc = Acc()
    if spec["mode"] == "exhaustive":
        items = exhaustive_items()
        for pos, it in enumerate(items):
            run_item(acc, dict(it, seq=["natural", pos]))
        # ... and once more in a shuffled order: a verdict must not depend on which definitions the process has seen before
        oseed = spec["seed"] % 100000
        for pos, it in enumerate(_shuffled(items, oseed)):
            run_item(acc, dict(it, seq=[oseed, pos]))
        acc.ev("definition-items-repeated-in-shuffled-order", len(items))
        acc.extra["exhaustive"] = True
        acc.extra["exhaustive_space"] = f"{len(items)} definition items: every name in dir(StateMachine) x 3 decorators, illegal and legal signatures, aliasing, non-StateMachine owners"
        acc.samples.extend(items[:2] + [i for i in items if i["kind"] == "sig"][:2])
    else:
        for i in range(spec["n"]):
            case = gen_hier(rng)
            case["hist"] = [spec["seed"], i]
            run_hier(acc, case, f"h{spec['seed']:x}x{i}")
            if i == 0:
                acc.samples.append(case)
    return acc.result()


def _shuffled(items, oseed):
    out = list(items)
    random.Random(oseed).shuffle(out)
    return out


def replay(pid, case):
    acc = Acc()
    if case.get("mode") == "hier":
        run_hier(acc, case, "replayh")
        if not acc.violations and "hist" in case:
            # behind the class definitions that preceded it in its shard (caches keyed by id(cls) outlive the classes)
            seed, idx = case["hist"]
            rng = random.Random(seed)
            acc = Acc()
            for i in range(idx):
                run_hier(acc, gen_hier(rng), f"h{seed:x}x{i}")
                if acc.violations:
                    acc.violations[0]["what"] = f"(hierarchy #{i} of the shard's sequence, seed {seed}) " + acc.violations[0]["what"]
                    return acc.violations[0]
            run_hier(acc, case, f"h{seed:x}x{idx}")
        return acc.violations[0] if acc.violations else None
    run_item(acc, case)
    if acc.violations or "seq" not in case:
        return acc.violations[0] if acc.violations else None
    # not reproducible alone: repeat it behind the definitions that preceded it in its shard
    how, pos = case["seq"]
    items = exhaustive_items()
    if how != "natural":
        items = _shuffled(items, how)
    scratch = Acc()
    for it in items[:pos]:
        run_item(scratch, it)
    acc = Acc()
    run_item(acc, case)
    if acc.violations:
        v = acc.violations[0]
        v["detail"] = dict(v.get("detail") or {}, needs_history=f"only after the {pos} definitions that precede it ({how} order)")
        return v
    return None
