#!/bin/sh
# Offline setup: nothing to install. Byte-compile the framework and run its self-tests
# (oracles on synthetic traces), so that a broken harness is reported here and not as a verdict.
set -e
cd "$(dirname "$0")"
PY="${VERIF_PYTHON:-/venv/bin/python}"
"$PY" -c "import wpilib, hal, ntcore, sys; print('python', sys.version.split()[0], 'wpilib', wpilib.__version__)"
PYTHONDONTWRITEBYTECODE=1 "$PY" -m compileall -q vf >/dev/null
PYTHONDONTWRITEBYTECODE=1 PYTHONPATH="$PWD" "$PY" -m vf.selftest
mkdir -p evidence replays
