#!/usr/bin/env python3
"""Regenerates /verif/MANIFEST.json from the table below (kept valid at all times)."""
import json, os, sys
HERE = os.path.dirname(os.path.dirname(os.path.abspath(__file__)))
props = [json.loads(l) for l in open(os.path.join(HERE, "properties.jsonl"))]
sys.path.insert(0, HERE)
from tools.manifest_table import CHECKS, NOT_BUILT  # noqa

checks = []
for p in props:
    pid = p["id"]
    if pid not in CHECKS:
        continue
    c = CHECKS[pid]
    checks.append({
        "property_id": pid,
        "quick_cmd": f"./check {pid} --tier quick",
        "thorough_cmd": f"./check {pid} --tier thorough",
        "evidence_file": f"evidence/{pid}.json",
        "replay_cmd_template": f"./check {pid} --replay {{path}}",
        "engine": c["engine"],
        "level_claimed": {"category": "exploration", "text": c["text"], "design_ref": c["ref"]},
        "level_note": c["note"],
        "technique": c["technique"],
    })
engines = {}
for pid, c in CHECKS.items():
    engines.setdefault(c["engine"], []).append(pid)
m = {
    "version": 1,
    "setup_cmd": "./setup.sh",
    "hooks": {
        "guard": "ROBOTPY_WPILIB_UTILITIES_VERIF",
        "enable": "no source hooks exist: every observation is made at the public Python/NetworkTables boundary from the harness side; the checks export ROBOTPY_WPILIB_UTILITIES_VERIF=1 to their workers but no repository code reads it",
        "baseline_off_cmd": "cd /repo && env -u ROBOTPY_WPILIB_UTILITIES_VERIF /venv/bin/python -m pytest -ra -q -p no:cacheprovider --timeout=900 --continue-on-collection-errors",
        "source_commits": [],
        "add_only": True,
    },
    "engines": [{"name": e, "path": f"vf/{e}.py", "serves_properties": sorted(v),
                 "kind_free_text": "runtime monitor: seeded generator + real code under the HAL simulator + trace oracle"}
                for e, v in sorted(engines.items())],
    "checks": checks,
    "notes": "All checks are runtime monitors over executions of /repo's working tree (see DESIGN.md). Exit 0 held / 1 VIOLATION / 2 INCONCLUSIVE (deciding monitor not reached or watchdog). Known findings: known_findings.json.",
    "not_applicable": [{"property_id": p["id"], "reason": NOT_BUILT.get(p["id"], "check not built yet in this session (planned, see DESIGN.md)")}
                       for p in props if p["id"] not in CHECKS],
}
json.dump(m, open(os.path.join(HERE, "MANIFEST.json"), "w"), indent=1)
print("checks:", [c["property_id"] for c in checks])
