#!/bin/sh
# Re-evaluate every seeded change against its own property's check and the sibling checks of the same engine.
cd "$(dirname "$0")/.." || exit 2
SM="C01,C02,C03,C04,C13"; RB="C05,C06,C07,C10,C11"
for d in seeded/C*-*; do
  n=$(basename $d); id=${n%-*}
  case $id in C01|C02|C03|C04|C13) also=$(echo $SM | sed "s/$id,//; s/,$id//");; C05|C06|C07|C10|C11) also=$(echo $RB | sed "s/$id,//; s/,$id//");; *) also="";; esac
  echo "=== $n"
  tools/eval_seeded.py $id $d/patch.diff $d/demo.py --save=$n --meta=$d/meta.json ${also:+--also=$also} 2>&1 | grep -v WARN | python3 -c "
import sys,json
t=sys.stdin.read()
try:
    r=json.loads(t[t.index('{'):])
    print('  valid=%s'%r['valid'])
    for c,v in r['checks'].items(): print('  ',c,v['status'],(v['violations'] or [''])[0][:160])
except Exception as e:
    print('  EVAL-ERROR', e, t[-300:])
"
done
