#!/bin/sh
# Re-evaluate saved seeded changes (own property's check only) with the current checks: tools/reeval_saved.sh 'C*-[123]' ...
cd "$(dirname "$0")/.." || exit 2
for pat in "$@"; do
  for d in seeded/$pat; do
    [ -f $d/patch.diff ] || continue
    n=$(basename $d); id=${n%%-*}
    echo "=== $n"
    tools/eval_seeded.py $id $d/patch.diff $d/demo.py --save=$n --meta=$d/meta.json 2>&1 | grep -v WARN | python3 -c "
import sys,json
t=sys.stdin.read()
try:
    r=json.loads(t[t.index('{'):])
    print('  valid=%s'%r['valid'])
    for c,v in r['checks'].items(): print('  ',c,v['status'],(v['violations'] or [''])[0][:160])
except Exception as e:
    print('  EVAL-ERROR', e, t[-300:])
"
  done
done
