#!/usr/bin/env python3
"""Which executable lines of the repository's sources do the checks' generated workloads never execute?

  tools/linecov.py [C01 C02 ...]        (default: all twenty, quick tier)

Runs the checks with VF_LINECOV_DIR set (the workers then record executed lines through sys.monitoring LINE events),
merges the per-worker files and prints, per source file, the executable lines that no worker executed.  Evidence and
replays of these runs go to a scratch directory, not to /verif/evidence.
"""
import glob
import json
import os
import shutil
import subprocess
import sys
import tempfile

ROOT = os.path.dirname(os.path.dirname(os.path.abspath(__file__)))
REPO = os.environ.get("VERIF_REPO", "/repo")
ids = sys.argv[1:] or [f"C{i:02d}" for i in range(1, 21)]
tmp = tempfile.mkdtemp(prefix="vf-linecov-")
env = dict(os.environ, VF_LINECOV_DIR=tmp, VERIF_EVIDENCE_DIR=os.path.join(tmp, "ev"), VERIF_REPLAY_DIR=os.path.join(tmp, "rp"))
os.makedirs(env["VERIF_EVIDENCE_DIR"])
for i in ids:
    r = subprocess.run([os.path.join(ROOT, "check"), i], env=env, capture_output=True, text=True)
    print(i, "rc", r.returncode, r.stdout.strip().splitlines()[-1][:110] if r.stdout.strip() else "", file=sys.stderr)
seen = set()
for f in glob.glob(os.path.join(tmp, "*.json")):
    seen.update(tuple(x) for x in json.load(open(f)))


def exec_lines(path):
    src = open(path).read()
    code = compile(src, path, "exec")
    out = set()
    todo = [code]
    while todo:
        c = todo.pop()
        if c.co_flags & 0x1:          # function bodies only: module and class bodies run at import, before monitoring starts
            for _s, _e, ln in c.co_lines():
                if ln is not None and ln != c.co_firstlineno:
                    out.add(ln)
        todo.extend(k for k in c.co_consts if hasattr(k, "co_lines"))
    return out, src.splitlines()


total = miss_total = 0
for pkg in ("magicbot", "robotpy_ext"):
    for dp, _dn, fn in os.walk(os.path.join(REPO, pkg)):
        for f in sorted(fn):
            if not f.endswith(".py"):
                continue
            p = os.path.join(dp, f)
            rel = os.path.relpath(p, REPO)
            lines, src = exec_lines(p)
            got = {ln for (fl, ln) in seen if fl == rel}
            if not got:
                continue            # module never imported by the selected checks
            miss = sorted(lines - got)
            lines = set(lines)
            # docstring-only / def-line artefacts: keep lines that hold code
            miss = [ln for ln in miss if src[ln - 1].strip() and not src[ln - 1].strip().startswith(('"""', "'''", "#"))]
            total += len(lines)
            miss_total += len(miss)
            print(f"== {rel}: {len(lines) - len(miss)}/{len(lines)} executable lines executed")
            for ln in miss:
                print(f"   {ln:4d}  {src[ln - 1].rstrip()[:110]}")
print(f"TOTAL {total - miss_total}/{total}")
shutil.rmtree(tmp, ignore_errors=True)
