"""Per-property manifest text. Only properties whose check exists and has been run are listed."""
NOT_BUILT = {}
CHECKS = {
    "C20": {
        "engine": "p_crc7",
        "technique": "runtime monitor: differential oracle (bit-serial CRC) over exhaustive 2-byte space + sampled fold-state observation via sys.monitoring",
        "ref": "DESIGN.md section 6 (C20)",
        "text": "crc7() is executed on all 65 536 two-byte messages (every (running checksum, byte) transition of the table-driven fold), on sampled calls whose running checksum is observed after every byte inside the real frame, on random messages up to 20 000 bytes in six container types (also one buffer / memoryview object changed in place and checksummed again, long zero runs, zero bytes at 4096-byte block boundaries, the keyword spelling, a child interpreter under python -O / -OO), on random equal-length pairs (linearity) and on every single-bit / two-bit (<127 apart) / burst<=7 error pattern for each message length up to 40 bytes; the oracle is an independent bit-serial CRC. Held-on-observed, not a proof for unbounded lengths; the fold-structure observation is what ties longer messages to the exhaustively checked transitions.",
        "note": "trusts the 12-line bit-serial reference (self-tested in setup) and CPython's sys.monitoring LINE events for the fold probe",
    },
}

_SM_NOTE = ("trusts the reference model vf/sm_model.py (a reading of the statements; don't-cares listed in DESIGN.md 3.2), "
            "the HAL simulator's paused clock and local NetworkTables; state functions are generated code that logs at the boundary")
for _pid, _txt in {
    "C01": "which state functions run per iteration (engaged / unengaged / must_finish / default / next_state_now chains), direct count rule 1+#next_state_now, no regular non-must_finish state in an unengaged iteration",
    "C02": "expiry decisions (strict on the 1/64 s grid, ties elsewhere), run-at-least-once, successor clock = predecessor expiry, cycle restarts, durations from the NetworkTables topic (default, pre-existing, edited), state_tm never negative",
    "C03": "tm / state_tm / initial_call per invocation for all 16 ordered parameter subsets on every decorator, type-exact, per entry kind (engage, next_state incl. self, expiry, restart, default fallback)",
    "C04": "done() invoked at every stop cause, is_executing / current_state (attribute and NetworkTables topic) after every external call, restart at first / initial_state with initial_call True and tm 0",
}.items():
    CHECKS[_pid] = {
        "engine": "sm_engine",
        "technique": "runtime monitor: generated StateMachine subclasses and online-generated call histories under the paused HAL clock, checked against a set-valued executable reference model; every library call bounded by a line budget (sys.monitoring) in the confirming replay",
        "ref": "DESIGN.md section 3",
        "text": "Real magicbot.StateMachine subclasses (1-6 states, rarely 34-40 or 1100 chained ones; inheritance, overrides) are driven - one object also through 100 000 iterations, and through 100+ nested immediate transitions in one iteration - through ~10^4 (quick) / ~4*10^5 (thorough) random histories with adversarial clock steps; the monitor checks " + _txt + ". Held on the executions observed; event-kind counters in the evidence show which situations were actually reached.",
        "note": _SM_NOTE,
    }
CHECKS["C13"] = {
    "engine": "sm_engine",
    "technique": "runtime monitor: AutonomousStateMachine in lock-step with a plain StateMachine twin engaged every iteration, plus absolute trace rules (nothing after the end; a last timed state never called past first call + duration; argument types; first call after on_enable)",
    "ref": "DESIGN.md section 3 (C13)",
    "text": "Generated AutonomousStateMachine subclasses run 1-14 autonomous periods (one object also 160 periods of 1000 loops) (on_enable / on_iteration / on_disable, disable mid-run, many post-end iterations); every state-function call and argument is compared with a twin StateMachine of identical shape that is engage()d before every iteration at the same clock values; after done()/last-state expiry no state function may run and is_executing must stay False until the next on_enable, which must start at the first state with tm 0.",
    "note": "twin and machine share the StateMachine core, so defects of the core itself are C01-C04's business, by design; trusts the paused HAL clock",
}

CHECKS["C17"] = {
    "engine": "p_sharp",
    "technique": "runtime monitor: real drivers fed through AnalogInputSim, closed-form oracle, exhaustive over all 4096 ADC codes x 3 models plus bit-pattern-sampled doubles",
    "ref": "DESIGN.md section 6 (C17)",
    "text": "Every ADC code, special doubles (+-0, negatives, denormals, huge, +-inf) and random doubles are pushed through the simulator into the three real drivers; each reading must be finite, inside the documented range, equal to the datasheet power law (rel 1e-9) where the law lies inside the range, clamped otherwise, and non-increasing over the sorted sample; the sim helpers must invert the driver (reading == clamp(d)) and report the distance that was set.",
    "note": "trusts AnalogInputSim to deliver the voltage unchanged (probed); NaN excluded as in the quantifier",
}
CHECKS["C18"] = {
    "engine": "p_units",
    "technique": "runtime monitor: differential oracle in exact rational arithmetic over all 64 unit triples, random user-defined unit chains, real sonar/pressure drivers fed through the simulator",
    "ref": "DESIGN.md section 6 (C18)",
    "text": "units.convert is compared with exact rational arithmetic (identity, round trip, composition, homogeneity, additivity, named ratios) on all ordered triples of the defined units and on random user-defined chains (depth up to 24, and linear chains of 1100-5200 units, deeper than the interpreter's recursion limit); MaxSonar pulse-width/analog drivers for every output unit and the REV pressure sensor (any V incl. 0/negative/inf, Vcc incl. 0, calibration pressure >= 0) are read through real driver objects and compared with the statement's formulas.",
    "note": "Counter.getPeriod has no simulator setter: a stub counter object is substituted (as the repository's own test does); values whose exact result leaves the double range are not compared",
}
CHECKS["C12"] = {
    "engine": "p_smdef",
    "technique": "runtime monitor: exhaustive enumeration of forbidden names / signatures plus generated class hierarchies, expected-outcome oracle computed from the statement",
    "ref": "DESIGN.md section 5 (C12)",
    "text": "Every attribute name of StateMachine x 3 decorators, every illegal signature element and all 16 legal parameter subsets, aliasing, non-StateMachine owners and direct calls are executed against the real decorators; every definition item is also repeated in a shuffled order (verdicts must not depend on earlier definitions); random single/linear/diamond hierarchies with overriding by states and non-states are instantiated (also under a component name another machine is still publishing) and the outcome compared with (k first, j default) computed through Python's own MRO; for accepted machines state_names / state_descriptions (attribute and NetworkTables) are checked for set equality, ordering constraints and alignment.",
    "note": "order between sibling bases and the position of overridden states are don't-cares; annotation-only names are reported, not judged",
}
CHECKS["C19"] = {
    "engine": "p_controls",
    "technique": "runtime monitor: random sample/record/op sequences under the paused FPGA clock (substituted monotonic clock for PeriodicFilter) against edge-detector and rate-limit trace rules",
    "ref": "DESIGN.md section 6 (C19)",
    "text": "Toggle (fake and real wpilib.Joystick through DriverStationSim, all four accessors, with/without debounce), ButtonDebouncer, PeriodicFilter and SimpleWatchdog are driven through random sequences with landings exactly on / 1us around the period; the monitors check one flip per sampled released-to-pressed edge, on == not off, spacing of changes / True results / passed low-level records / warnings, True only when pressed, required True after a period, bypass-level records always passed, isExpired() == (elapsed > timeout) in whole microseconds.",
    "note": "ties on inexactly representable operands accepted; ButtonDebouncer before its first True is a don't-care while FPGA time <= period",
}
CHECKS["C15"] = {
    "engine": "p_stateful",
    "technique": "runtime monitor: generated StatefulAutonomous subclasses over multi-period scripted tm sequences against a set-valued executable reference model",
    "ref": "DESIGN.md section 5 (C15)",
    "text": "Generated modes (chains, loops, branches, self re-entry, all 16 parameter subsets) run 1-4 autonomous periods on one instance with regular, jittered, late-starting and boundary-exact tm sequences, scripted next_state()/done(), dashboard-edited durations and registered variables; which state runs and its tm / state_tm / initial_call are compared per iteration with a model written from the statement (strict on the 1/64 s grid, ties elsewhere).",
    "note": "trusts local NetworkTables SmartDashboard table semantics; model in vf/p_stateful.py",
}

_RB_NOTE = ("trusts the gate handshake of vf/simenv.py (robot thread parked inside NotifierDelay.wait() while the harness acts), the HAL "
            "simulator's driver-station / notifier model and local NetworkTables; expected traces are generated from the statements (vf/robot_engine.py)")
for _pid, _txt in {
    "C05": "per-iteration callback grammar (mode code, execute of every component once in declaration order with base classes first, feedbacks, robotPeriodic; no execute in disabled/test), /robot/mode inside every periodic, and the start time of every iteration = max(T0 + k*P, end of previous body) in integer FPGA microseconds under loop bodies that overrun",
    "C06": "setup exactly once after all constructors with injected attributes already identical to the robot's, on_enable in declaration order before init hook / mode.on_enable / execute, on_disable on leaving and again on entering disabled, nothing but on_disable after endCompetition in any mode",
    "C07": "fault plans (1-3 faulty sites x first / k-th / every call) at every callback site: with FMS the full expected trace must still be produced and the loop keeps iterating; without FMS the trace stops at the raising callback and the very exception object escapes startCompetition()",
    "C10": "a shadow register per will_reset_to attribute and unmarked sentinel, fed by logged assignments from every callback kind; every callback's snapshot must equal the shadow, and at the quiescent point after every enabled iteration (also ones with swallowed faults) marked attributes equal their defaults",
    "C11": "per iteration and mode: each getter called exactly once, independent subscribers on /components/<name>/<key> and /robot/<key> hold the value just returned (or the previous one for a getter that raised under FMS), topic type string per return hint / inferred family",
}.items():
    CHECKS[_pid] = {
        "engine": "robot_engine",
        "technique": "runtime monitor: generated MagicRobot programs run through the real startCompetition() thread under the HAL simulator with a gate at NotifierDelay.wait(); trace compared with statement-derived expected trace / shadow registers / NetworkTables subscribers",
        "ref": "DESIGN.md section 4",
        "text": "2.4k (quick) / ~10^5 (thorough) generated robots x random driver-station histories; the monitor checks " + _txt + ".",
        "note": _RB_NOTE,
    }

CHECKS["C08"] = {
    "engine": "p_inject",
    "technique": "runtime monitor: generated robot definitions through the real robotInit(), identity (is) of every injected attribute observed inside the first setup() and afterwards, against a resolution function written from the statement",
    "ref": "DESIGN.md section 5 (C08)",
    "text": "1.8k (quick) / 1.6*10^5 (thorough) generated robots: components with own/inherited annotations and constructor parameters, autonomous modes as targets, robot attributes at class level / inherited class / createObjects, relations {absent, plain, prefixed, both, wrong type, subclass, bool-for-int, falsy, None, preset on class, set in __init__, private, generic alias, other component earlier/later}; expected outcome inject(obj) / untouched / MagicInjectError per attribute; observed by identity before any setup() finished and after robotInit().",
    "note": "robot attribute == None is generated only where both readings of 'if there is none' agree; with several erroneous attributes any of their errors may surface",
}
CHECKS["C09"] = {
    "engine": "p_tunable",
    "technique": "runtime monitor: last-writer register per (instance, attribute) over random interleavings of python-side and NetworkTables-side reads/writes through independent typed publishers/subscribers",
    "ref": "DESIGN.md section 5 (C09)",
    "text": "Generated owner classes with tunables of every supported type (bool, int, float, str, bytes, struct, arrays, type-hinted empty sequences in three spellings), subtables, writeDefault on/off, pre-existing topic values, bound directly (components / autonomous / no prefix) or through a real MagicRobot (component, autonomous mode, the robot itself), 1-3 instances per class; the monitor checks the topic path and type string, the initial value, and that every read on either side returns the latest write from either side; instances never alias.",
    "note": "values written are always of the topic's own type; local NetworkTables with the clock paused",
}

CHECKS["C16"] = {
    "engine": "p_delay",
    "technique": "runtime monitor: worker thread in the real NotifierDelay.wait() while the harness moves the paused FPGA clock exactly to the programmed alarm (recording hal proxy); grid arithmetic in integer microseconds",
    "ref": "DESIGN.md section 6 (C16)",
    "text": "Threaded runs with scripted loop-body durations (0, <<P, P-1, P, P+1, several P) check that the k-th wait() returns at max(t0+k*P, body end) - never before the grid point -, that every programmed alarm is t0+k*P however long bodies took, that free()/with-exit stops and cleans the notifier once and a later wait() returns without touching the HAL; a sweep over whole-microsecond periods in [1 ms, 100 ms] (all 99 001 in the thorough tier) checks the period conversion through the first programmed alarm; one delay object waits 70 000 times in a row on a robot that has been up for 55 h (accumulation: a float schedule or a re-based tick counter leaves the grid only after tens of thousands of waits).",
    "note": "trusts the HAL simulator's notifier (level-triggered wait); a lost wake-up in the simulator shows up as an inconclusive case, never as a verdict",
}

CHECKS["C14"] = {
    "engine": "p_selector",
    "technique": "runtime monitor: generated autonomous packages on disk through the real AutonomousModeSelector (constructor, start/periodic/disable API and the run() loop in a gated thread); expected discovery set and per-period callback automaton",
    "ref": "DESIGN.md section 5 (C14)",
    "text": "Generated packages (modules x classes with MODE_NAME / DISABLED / DEFAULT, duplicates, several defaults, failing imports, syntax errors, failing constructors, shared helper classes, missing package) x FMS on/off x selection source (chooser default, SendableChooserSim, 'Auto Selector' naming a mode or nothing): constructor calls exactly once per eligible class, selector.modes and the chooser topics (options, default) read from NetworkTables, start-up exception iff a fault exists and no FMS, healthy modes all offered under FMS; per period the chosen mode gets on_enable, one on_iteration(t) per loop with non-decreasing t (t tracking the FPGA clock between iterations, also in run() periods of up to 260 iterations with iterations that overrun the loop period), on_disable; no other mode gets anything; nothing after on_disable.",
    "note": "under tolerated faults (FMS) the preselected entry and which duplicate instance runs are don't-cares; mode classes re-exported by a second module are not generated",
}
