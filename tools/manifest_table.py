"""Per-property manifest text. Only properties whose check exists and has been run are listed."""
NOT_BUILT = {}
CHECKS = {
    "C20": {
        "engine": "p_crc7",
        "technique": "runtime monitor: differential oracle (bit-serial CRC) over exhaustive 2-byte space + sampled fold-state observation via sys.monitoring",
        "ref": "DESIGN.md section 6 (C20)",
        "text": "crc7() is executed on all 65 536 two-byte messages (every (running checksum, byte) transition of the table-driven fold), on sampled calls whose running checksum is observed after every byte inside the real frame, on random messages up to 4 KiB in five container types, on random equal-length pairs (linearity) and on every single-bit / two-bit (<127 apart) / burst<=7 error pattern for each message length up to 40 bytes; the oracle is an independent bit-serial CRC. Held-on-observed, not a proof for unbounded lengths; the fold-structure observation is what ties longer messages to the exhaustively checked transitions.",
        "note": "trusts the 12-line bit-serial reference (self-tested in setup) and CPython's sys.monitoring LINE events for the fold probe",
    },
}

_SM_NOTE = ("trusts the reference model vf/sm_model.py (a reading of the statements; don't-cares listed in DESIGN.md 3.2), "
            "the HAL simulator's paused clock and local NetworkTables; state functions are generated code that logs at the boundary")
for _pid, _txt in {
    "C01": "which state functions run per iteration (engaged / unengaged / must_finish / default / next_state_now chains), direct count rule 1+#next_state_now, no regular non-must_finish state in an unengaged iteration",
    "C02": "expiry decisions (strict on the 1/64 s grid, ties elsewhere), run-at-least-once, successor clock = predecessor expiry, cycle restarts, durations from the NetworkTables topic (default, pre-existing, edited), state_tm never negative",
    "C03": "tm / state_tm / initial_call per invocation for all 16 ordered parameter subsets on every decorator, type-exact, per entry kind (engage, next_state incl. self, expiry, restart, default fallback)",
    "C04": "done() invoked at every stop cause, is_executing / current_state (attribute and NetworkTables topic) after every external call, restart at first / initial_state with initial_call True and tm 0",
}.items():
    CHECKS[_pid] = {
        "engine": "sm_engine",
        "technique": "runtime monitor: generated StateMachine subclasses and online-generated call histories under the paused HAL clock, checked against a set-valued executable reference model",
        "ref": "DESIGN.md section 3",
        "text": "Real magicbot.StateMachine subclasses (1-6 states, inheritance, overrides) are driven through ~10^4 (quick) / ~4*10^5 (thorough) random histories with adversarial clock steps; the monitor checks " + _txt + ". Held on the executions observed; event-kind counters in the evidence show which situations were actually reached.",
        "note": _SM_NOTE,
    }
CHECKS["C13"] = {
    "engine": "sm_engine",
    "technique": "runtime monitor: AutonomousStateMachine in lock-step with a plain StateMachine twin engaged every iteration, plus absolute trace rules after the end",
    "ref": "DESIGN.md section 3 (C13)",
    "text": "Generated AutonomousStateMachine subclasses run 1-4 autonomous periods (on_enable / on_iteration / on_disable, disable mid-run, many post-end iterations); every state-function call and argument is compared with a twin StateMachine of identical shape that is engage()d before every iteration at the same clock values; after done()/last-state expiry no state function may run and is_executing must stay False until the next on_enable, which must start at the first state with tm 0.",
    "note": "twin and machine share the StateMachine core, so defects of the core itself are C01-C04's business, by design; trusts the paused HAL clock",
}
