"""Per-property manifest text. Only properties whose check exists and has been run are listed."""
NOT_BUILT = {}
CHECKS = {
    "C20": {
        "engine": "p_crc7",
        "technique": "runtime monitor: differential oracle (bit-serial CRC) over exhaustive 2-byte space + sampled fold-state observation via sys.monitoring",
        "ref": "DESIGN.md section 6 (C20)",
        "text": "crc7() is executed on all 65 536 two-byte messages (every (running checksum, byte) transition of the table-driven fold), on sampled calls whose running checksum is observed after every byte inside the real frame, on random messages up to 4 KiB in five container types, on random equal-length pairs (linearity) and on every single-bit / two-bit (<127 apart) / burst<=7 error pattern for each message length up to 40 bytes; the oracle is an independent bit-serial CRC. Held-on-observed, not a proof for unbounded lengths; the fold-structure observation is what ties longer messages to the exhaustively checked transitions.",
        "note": "trusts the 12-line bit-serial reference (self-tested in setup) and CPython's sys.monitoring LINE events for the fold probe",
    },
}
