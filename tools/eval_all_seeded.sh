#!/bin/sh
# usage: tools/eval_all_seeded.sh C20 [also-list] [source-dir=/tmp/seed/out] [name-infix, e.g. r2-]
# evaluates <source-dir>/<ID>/patch{1,2,3}.diff and stores valid ones as seeded/<ID>-<infix><k>/
cd "$(dirname "$0")/.." || exit 2
id="$1"; also="$2"; src="${3:-/tmp/seed/out}"; infix="$4"
for k in 1 2 3; do
  d=$src/$id
  [ -f $d/patch$k.diff ] && [ -f $d/demo$k.py ] || continue
  echo "=== $id-$infix$k"
  tools/eval_seeded.py $id $d/patch$k.diff $d/demo$k.py --save=$id-$infix$k --meta=$d/meta$k.json ${also:+--also=$also} 2>&1 | grep -v WARN | python3 -c "
import sys,json
t=sys.stdin.read()
try:
    r=json.loads(t[t.index('{'):])
    print('  valid=%s tests=%s demo(clean,patched)=(%s,%s)'%(r['valid'],r['tests_pass_with_patch'],r.get('demo_rc_clean'),r.get('demo_rc_patched')))
    for c,v in r['checks'].items(): print('  ',c,v['status'],(v['violations'] or [''])[0][:200])
except Exception as e:
    print('  EVAL-ERROR', e, t[-500:])
"
done
