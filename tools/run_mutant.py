#!/usr/bin/env python3
"""Apply one patch to a scratch copy of /repo (never to /repo itself), run the repository's own
tests there, then run the named checks against the scratch copy (VERIF_REPO).  Prints one line per
check: CAUGHT (exit 1 + VIOLATION line), MISSED (exit 0), or INCONCLUSIVE (exit 2).

usage: tools/run_mutant.py PATCH.diff C01 [C02 ...] [--tier quick] [--keep] [--no-tests]
"""
import os, shutil, subprocess, sys, tempfile

HERE = os.path.dirname(os.path.dirname(os.path.abspath(__file__)))


def main():
    args = [a for a in sys.argv[1:] if not a.startswith("--")]
    flags = [a for a in sys.argv[1:] if a.startswith("--")]
    patch, pids = os.path.abspath(args[0]), args[1:]
    tier = "quick"
    for f in flags:
        if f.startswith("--tier="):
            tier = f.split("=", 1)[1]
    tmp = tempfile.mkdtemp(prefix="vf-mut-", dir=os.environ.get("VERIF_SCRATCH", "/tmp"))
    repo = os.path.join(tmp, "repo")
    try:
        subprocess.run(["rsync", "-a", "--exclude", ".git", "--exclude", "__pycache__", "--exclude", "networktables.json",
                        "/repo/", repo + "/"], check=True)
        p = subprocess.run(["patch", "-p1", "-s", "-d", repo, "-i", patch], capture_output=True, text=True)
        if p.returncode != 0:
            print("PATCH-FAILED", p.stdout, p.stderr)
            return 3
        if "--no-tests" not in flags:
            env = dict(os.environ, PYTHONPATH=repo, PYTHONDONTWRITEBYTECODE="1")
            t = subprocess.run(["/venv/bin/python", "-m", "pytest", "-q", "-p", "no:cacheprovider", "-x", "--timeout=600", "tests"],
                               cwd=repo, env=env, capture_output=True, text=True)
            tail = t.stdout.strip().splitlines()[-1] if t.stdout.strip() else t.stderr[-300:]
            print(f"repo-tests: rc={t.returncode} {tail}")
        rc_all = 0
        for pid in pids:
            env = dict(os.environ, VERIF_REPO=repo, VERIF_EVIDENCE_DIR=os.path.join(tmp, "evidence"),
                       VERIF_REPLAY_DIR=os.path.join(HERE, "replays", "mutants"))
            c = subprocess.run([os.path.join(HERE, "check"), pid, "--tier", tier], env=env, capture_output=True, text=True)
            viol = [l for l in c.stdout.splitlines() if l.startswith("VIOLATION") or l.strip().startswith("violated:")]
            status = {0: "MISSED", 1: "CAUGHT", 2: "INCONCLUSIVE"}.get(c.returncode, f"rc={c.returncode}")
            print(f"{pid}: {status}")
            for l in viol[:4]:
                print("    " + l[:230])
            if c.returncode == 2:
                print("    " + "\n    ".join(l[:300] for l in c.stdout.splitlines() if "INCONCLUSIVE" in l)[:1500])
        # the evidence files were rewritten by a run against the mutant: they are not evidence for /repo
        return rc_all
    finally:
        if "--keep" not in flags:
            shutil.rmtree(tmp, ignore_errors=True)
        else:
            print("kept", tmp)


if __name__ == "__main__":
    sys.exit(main())
