#!/usr/bin/env python3
"""Regenerate the table of sub-agent changes in DESIGN.md (section 10.4) from seeded/*/meta.json.

  tools/seeded_table.py            print the table and the per-round counts
  tools/seeded_table.py --write    replace the table in DESIGN.md
"""
import glob
import json
import os
import re
import sys

ROOT = os.path.dirname(os.path.dirname(os.path.abspath(__file__)))


def key(d):
    n = os.path.basename(d)
    m = re.match(r"(C\d\d)-(?:r(\d+)-)?(\d+)$", n)
    return (m.group(1), int(m.group(2) or 1), int(m.group(3)))


rows = []
counts = {}
for d in sorted(glob.glob(os.path.join(ROOT, "seeded", "C??-*")), key=key):
    mp = os.path.join(d, "meta.json")
    if not os.path.isfile(mp):
        continue
    m = json.load(open(mp))
    pid, rnd, _k = key(d)
    own = (m.get("checks") or {}).get(pid, {})
    st = own.get("status", "?")
    vk = ""
    if own.get("violations"):
        mm = re.search(r"key=(\S+)", own["violations"][0])
        vk = mm.group(1) if mm else ""
    other = [f"{c} {v['status']}" for c, v in (m.get("checks") or {}).items() if c != pid and v.get("status") == "CAUGHT"]
    note = ""
    if st != "CAUGHT":
        note = (m.get("not_caught_reason") or "")[:90]
        if other:
            note = ("by " + ", ".join(o.split()[0] for o in other) + "; " + note).strip("; ")
    c = counts.setdefault(rnd, [0, 0])
    c[1] += 1
    c[0] += st == "CAUGHT"

    def cell(s, n):
        return (s or "").replace("|", "/").replace("\n", " ")[:n]
    rows.append(f"| {os.path.basename(d)} | {cell(m.get('summary'), 110)} | {cell(m.get('needs_to_manifest'), 90)} | {pid} {st} | {vk or note} |")

head = ["| change | what it does (sub-agent's summary, shortened) | needs | own check | violation key / note |", "|---|---|---|---|---|"]
table = "\n".join(head + rows)
if "--write" in sys.argv:
    p = os.path.join(ROOT, "DESIGN.md")
    s = open(p).read()
    a = s.index("| change | what it does")
    b = a
    lines = s[a:].split("\n")
    n = 0
    while n < len(lines) and lines[n].startswith("|"):
        n += 1
    b = a + len("\n".join(lines[:n]))
    open(p, "w").write(s[:a] + table + s[b:])
else:
    print(table)
for r, (c, n) in sorted(counts.items()):
    print(f"round {r}: {c}/{n} caught by own check", file=sys.stderr)
print("total", sum(c for c, _ in counts.values()), "/", sum(n for _, n in counts.values()), file=sys.stderr)
