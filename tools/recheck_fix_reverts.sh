#!/bin/sh
# every fix: commit reverted on a scratch copy; the check that found the defect must report it again
cd /verif
for pair in dbd7e1d:C02,C03,C04 7ad6c31:C04 ee0892f:C02,C01 b2252ec:C19 e3cc9f6:C15 3c5214a:C07 a1594d5:C07 c25f546:C09 c14c1b8:C09 62a768c:C16 9da4274:C08; do
  c=${pair%%:*}; checks=$(echo ${pair#*:} | tr ',' ' ')
  git -C /repo diff $c $c^ -- . ':!tests' > /tmp/revert-$c.diff
  echo "=== revert $c ($checks)"
  tools/run_mutant.py /tmp/revert-$c.diff $checks --no-tests 2>&1 | grep -v WARNING | grep "^C[0-9][0-9]:"
done
