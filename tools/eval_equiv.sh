#!/bin/sh
# usage: tools/eval_equiv.sh <source-dir> <group> "<checks>"  [name-infix]
# Behaviour-preserving refactorings written by sub-agents: <source-dir>/<group>/patch{1,2,3}.diff.  Each is applied to a scratch
# copy, the repository's tests are run, then the listed checks must ALL stay silent (exit 0).  Kept as equiv/<group>-<k>/.
cd "$(dirname "$0")/.." || exit 2
src="$1"; g="$2"; checks="$3"; infix="$4"
for k in 1 2 3; do
  p=$src/$g/patch$k.diff
  [ -s "$p" ] || continue
  d=equiv/$g-$infix$k
  mkdir -p $d
  cp $p $d/patch.diff
  [ -f $src/$g/note$k.txt ] && cp $src/$g/note$k.txt $d/note.txt
  echo "=== $g-$infix$k ($checks)"
  tools/run_mutant.py $d/patch.diff $checks 2>&1 | grep -v WARNING | tee $d/result.txt | sed 's/^/   /'
done
