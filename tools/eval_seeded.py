#!/usr/bin/env python3
"""Evaluate one seeded change delivered by an independent sub-agent.

usage: tools/eval_seeded.py PID PATCH DEMO [--also C0x,C0y] [--tier quick] [--save NAME]

1. scratch copies of /repo: A (clean) and B (patched) outside /repo and /verif
2. the repository's own tests must pass on B
3. the demonstration must exit 0 on A and non-zero on B
4. ./check PID (and --also) against B: CAUGHT / MISSED / INCONCLUSIVE
With --save the patch, demo and a meta.json are stored under /verif/seeded/NAME/.
"""
import json, os, shutil, subprocess, sys, tempfile

HERE = os.path.dirname(os.path.dirname(os.path.abspath(__file__)))
PY = "/venv/bin/python"


def sh(cmd, **kw):
    return subprocess.run(cmd, capture_output=True, text=True, **kw)


def main():
    args = [a for a in sys.argv[1:] if not a.startswith("--")]
    opts = dict(a[2:].split("=", 1) if "=" in a else (a[2:], "1") for a in sys.argv[1:] if a.startswith("--"))
    pid, patch, demo = args[0], os.path.abspath(args[1]), os.path.abspath(args[2])
    also = [x for x in opts.get("also", "").split(",") if x]
    tier = opts.get("tier", "quick")
    tmp = tempfile.mkdtemp(prefix="vf-seed-")
    res = {"property": pid, "patch": patch, "demo": demo}
    try:
        A, B = os.path.join(tmp, "A"), os.path.join(tmp, "B")
        for d in (A, B):
            subprocess.run(["rsync", "-a", "--exclude", ".git", "--exclude", "__pycache__", "--exclude", "networktables.json", "/repo/", d + "/"], check=True)
        p = sh(["patch", "-p1", "-s", "-d", B, "-i", patch])
        if p.returncode:
            print("PATCH-FAILED", p.stdout, p.stderr)
            return 3
        env = dict(os.environ, PYTHONDONTWRITEBYTECODE="1")
        t = sh([PY, "-m", "pytest", "-q", "-p", "no:cacheprovider", "--timeout=600", "tests"], cwd=B, env=dict(env, PYTHONPATH=B))
        res["tests_pass_with_patch"] = t.returncode == 0
        res["tests_tail"] = (t.stdout.strip().splitlines() or [""])[-1]
        cwd = os.path.join(tmp, "cwd")
        os.mkdir(cwd)
        try:
            da = sh([PY, demo], cwd=cwd, env=dict(env, PYTHONPATH=A), timeout=300)
            db = sh([PY, demo], cwd=cwd, env=dict(env, PYTHONPATH=B), timeout=300)
            res["demo_rc_clean"], res["demo_rc_patched"] = da.returncode, db.returncode
            res["demo_tail_patched"] = (db.stderr.strip().splitlines() or db.stdout.strip().splitlines() or [""])[-1][:300]
        except subprocess.TimeoutExpired:
            res["demo_rc_clean"] = res["demo_rc_patched"] = "timeout"
        res["valid"] = bool(res["tests_pass_with_patch"] and res.get("demo_rc_clean") == 0 and res.get("demo_rc_patched") not in (0, "timeout"))
        res["checks"] = {}
        for c in [pid] + also:
            e2 = dict(os.environ, VERIF_REPO=B, VERIF_EVIDENCE_DIR=os.path.join(tmp, "evidence"), VERIF_REPLAY_DIR=os.path.join(tmp, "replays"))
            r = sh([os.path.join(HERE, "check"), c, "--tier", tier], env=e2)
            status = {0: "MISSED", 1: "CAUGHT", 2: "INCONCLUSIVE"}.get(r.returncode, f"rc={r.returncode}")
            keys = [l.strip()[:260] for l in r.stdout.splitlines() if l.strip().startswith("violated:")]
            res["checks"][c] = {"status": status, "violations": keys[:4]}
        print(json.dumps(res, indent=1))
        if "save" in opts:
            d = os.path.join(HERE, "seeded", opts["save"])
            os.makedirs(d, exist_ok=True)
            for src, dst in ((patch, os.path.join(d, "patch.diff")), (demo, os.path.join(d, "demo.py"))):
                if os.path.abspath(src) != os.path.abspath(dst):
                    shutil.copy(src, dst)
            meta = {}
            mp = opts.get("meta")
            if mp and os.path.exists(mp):
                meta = json.load(open(mp))
            meta.update({"property": pid, "what_i_ran": f"tools/eval_seeded.py {pid} patch.diff demo.py (repo tests on the patched copy; demo on clean and patched copies; ./check against the patched copy)",
                         "tests_pass_with_patch": res["tests_pass_with_patch"], "demo_rc_clean": res.get("demo_rc_clean"),
                         "demo_rc_patched": res.get("demo_rc_patched"), "confirmed_valid": res["valid"], "checks": res["checks"]})
            json.dump(meta, open(os.path.join(d, "meta.json"), "w"), indent=1)
        return 0
    finally:
        shutil.rmtree(tmp, ignore_errors=True)


if __name__ == "__main__":
    sys.exit(main())
