#!/bin/sh
cd /verif
for d in equiv/G*-?; do
  checks=$(grep -o "^C[0-9][0-9]" $d/result.txt | tr '\n' ' ')
  echo "=== $d ($checks)"
  tools/run_mutant.py $d/patch.diff $checks --no-tests 2>&1 | grep -v WARNING | sed 's/^/   /'
done
