#!/bin/sh
# every hand-written patch of tools/mutants against all checks of its engine, with the current checks
cd "$(dirname "$0")/.." || exit 2
for f in tools/mutants/*.diff; do
  n=$(basename $f .diff)
  case $n in
    sm-*) cs="C01 C02 C03 C04 C13";;
    rb-*) cs="C05 C06 C07 C10 C11";;
    inj-*) cs="C08";;
    refactor-*) cs="C01 C02 C03 C04 C05 C06 C07 C08 C09 C10 C11 C12 C13 C14 C15 C16 C17 C18 C19 C20";;
  esac
  echo "=== $n"
  tools/run_mutant.py $f $cs --no-tests 2>&1 | grep "^C[0-9][0-9]:" | tr '\n' ' '; echo
done
