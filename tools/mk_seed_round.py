#!/usr/bin/env python3
"""Prepare one round of independent property-breaking changes by sub-agents.

  tools/mk_seed_round.py ROUND [FOCUS-FILE]

creates, for every property, a scratch git worktree of /repo under /tmp/seed<ROUND>/<ID> and an output directory
/tmp/seed<ROUND>/out/<ID> holding PROPERTY.txt and PROMPT.txt.  A sub-agent gets PROMPT.txt only: the text of the
property, its own worktree, and one-line summaries of the changes earlier sub-agents already delivered for that property
(their own words, from seeded/*/meta.json) - nothing else from /verif.
Worktrees are removed again with:  for d in /tmp/seed<ROUND>/C??; do git -C /repo worktree remove --force $d; done
"""
import glob
import json
import os
import subprocess
import sys

ROOT = os.path.dirname(os.path.dirname(os.path.abspath(__file__)))
rnd = sys.argv[1]
focus = open(sys.argv[2]).read().strip() if len(sys.argv) > 2 else ""
base = f"/tmp/seed{rnd}"
tmpl = open(os.path.join(ROOT, "tools", "seed_prompt.tmpl")).read()
os.makedirs(base + "/out", exist_ok=True)
for line in open(os.path.join(ROOT, "properties.jsonl")):
    p = json.loads(line)
    pid = p["id"]
    wt, out = f"{base}/{pid}", f"{base}/out/{pid}"
    os.makedirs(out, exist_ok=True)
    if not os.path.isdir(wt):
        subprocess.run(["git", "-C", "/repo", "worktree", "add", "--detach", "-q", wt, "HEAD"], check=True)
    prop = (f"PROPERTY {pid}: {p['title']}\n\nSTATEMENT: {p['statement']}\n\nQUANTIFIER ({', '.join(p['quantifier']['over'])}): "
            f"{p['quantifier']['text']}\n\nWHY THE EXISTING TESTS CANNOT SETTLE IT: {p['why_tests_cant']}\n\n"
            f"FILES THE PROPERTY IS ANCHORED IN: {', '.join(p['anchors']['files'])}\n")
    tried = []
    for m in sorted(glob.glob(os.path.join(ROOT, "seeded", pid + "-*", "meta.json"))):
        s = json.load(open(m)).get("summary", "")
        if s:
            tried.append("- " + s[:220].replace("\n", " "))
    open(out + "/PROPERTY.txt", "w").write(prop)
    text = tmpl.replace("{WT}", wt).replace("{OUT}", out).replace("{PID}", pid).replace("{PROP}", prop) \
        .replace("{TRIED}", "\n".join(tried) or "- (nothing yet)").replace("{FOCUS}", focus).replace("{BASE}", base)
    open(out + "/PROMPT.txt", "w").write(text)
    print(pid, wt, len(tried), "earlier changes listed")
